package pslice

import (
	"fmt"
	"math"
	"strconv"
	"strings"

	"verif/elem"
)

// ---------------------------------------------------------------------------
// Element kinds.  The functions of package slice are generic; every check of
// this package keeps its case, its reference computations and its messages in
// ints exactly as it did when the functions were instantiated with int only,
// and converts at the call through a kit: field Elem of a case names the
// element type ("" = int, the original behaviour).
//
// An element is made from two ints: the value v the references work with and
// an identity id (0..63) that tells equal-valued elements apart:
//
//	string, wide, bytes  v and id are both stored in the element, so elements
//	                     of different id are different values (!=);
//	ptr, any             *elem.Cell (inside an interface for "any"): the pointee
//	                     holds v only, so two elements of equal v and different
//	                     id are DISTINCT pointers (!=) to deeply equal pointees;
//	int, i16, b8         no identity: the id is ignored;
//	f64                  no identity either, but an odd id turns the value 0
//	                     into -0.0, which is == to +0.0 (the same element as far
//	                     as EditScript / LCS / the natural order are concerned)
//	                     although math.Signbit tells the two apart.
//
// Inside one case the same (v, id) always gives the same element (for ptr/any
// the same pointer): the kit keeps a pool.  A kit is made per case; the
// identities of the pointer kinds live in a table of that kit, not in elem's
// global side table, because the exhaustive legs run their cases in parallel.

// kindB8 is a 1-byte element (type b8), local to this package: only the slice
// utilities (C17) use it, their elements being few enough for a byte.
const kindB8 = "b8"

type b8 uint8

// badV is what ek.v returns for an element the harness cannot have made (a
// nil pointer, the empty string ...), e.g. a zero value the code under test
// invented.
const badV = math.MinInt + 7

// idBits is the width of an identity inside a code.
const idBits = 6

type poolEnt[T any] struct {
	v, id int
	x     T
}

// ek is the element kit of one case.
type ek[T any] struct {
	kind  string // never "": the original element type has kind elem.Int
	tag   string // "" for int, else "[elem=<kind>]": follows the function name in messages
	hasID bool
	// mk makes a NEW element for (v, id); get is the pooled front of it.
	mk func(v, id int) T
	// v and id recover the two ints (id: 0 for the kinds without identity).
	v  func(T) int
	id func(T) int
	// strict reports whether a and b are the very same element as far as any
	// caller can tell: elem's Same, but float64 by bit pattern (+0 and -0
	// differ, a NaN is itself).
	strict func(a, b T) bool
	// show is the text of an element in messages: v, "#id" appended when the
	// kind has identities and id != 0.  For int it is the decimal number.
	show func(T) string
	// fits reports whether v is a value of the kind.
	fits func(v int) bool
	// lo and hi bound the values LIS cases are stretched over (Wide).
	lo, hi int
	// isNaN is nil except for f64.
	isNaN func(T) bool

	direct bool // mk is cheap and pure: no pool
	// flat: the element type has size zero, so it has ONE value: every element
	// equals every other, a sequence is its length.  The checks replace the
	// values of the case by zeros and skip the comparisons of element addresses
	// (pointers to zero-size objects tell nothing).
	flat bool
	ents []poolEnt[T]
	idx  map[[2]int]int
}

// get returns THE element of this case for (v, id).
func (k *ek[T]) get(v, id int) T {
	if !k.hasID {
		id &= 1 // only f64 looks at it
	}
	if k.direct {
		return k.mk(v, id)
	}
	if k.idx != nil {
		if i, ok := k.idx[[2]int{v, id}]; ok {
			return k.ents[i].x
		}
	} else {
		for i := range k.ents {
			if e := &k.ents[i]; e.v == v && e.id == id {
				return e.x
			}
		}
		if len(k.ents) == 24 {
			k.idx = make(map[[2]int]int, 64)
			for i, e := range k.ents {
				k.idx[[2]int{e.v, e.id}] = i
			}
		}
	}
	x := k.mk(v, id)
	if k.idx != nil {
		k.idx[[2]int{v, id}] = len(k.ents)
	}
	k.ents = append(k.ents, poolEnt[T]{v, id, x})
	return x
}

// idAt is the identity of position i: ids may be shorter than the sequence.
func idAt(ids []int, i int) int {
	if i < len(ids) {
		return ids[i] & (1<<idBits - 1)
	}
	return 0
}

// all converts a sequence of the case.
func (k *ek[T]) all(vs, ids []int) []T {
	out := make([]T, len(vs))
	for i, v := range vs {
		out[i] = k.get(v, idAt(ids, i))
	}
	return out
}

// code is the int the references see for the element (v, id): elements are ==
// exactly when their codes are equal.  Without identities it is v itself.
func (k *ek[T]) code(v, id int) int {
	if !k.hasID {
		return v
	}
	return v<<idBits | id
}

// foldShift: code >> foldShift is the "letter" v>>1 of the folding equality.
func (k *ek[T]) foldShift() uint {
	if !k.hasID {
		return 1
	}
	return idBits + 1
}

func (k *ek[T]) codes(vs, ids []int) []int {
	if !k.hasID {
		return vs
	}
	out := make([]int, len(vs))
	for i, v := range vs {
		out[i] = k.code(v, idAt(ids, i))
	}
	return out
}

// codeOf is the code of an element that came back from the code under test.
func (k *ek[T]) codeOf(x T) int {
	if !k.hasID {
		return k.v(x)
	}
	return k.code(k.v(x), k.id(x)&(1<<idBits-1))
}

func (k *ek[T]) codesOf(xs []T) []int {
	out := make([]int, len(xs))
	for i, x := range xs {
		out[i] = k.codeOf(x)
	}
	return out
}

// equal: the same elements at the same positions.
func (k *ek[T]) equal(a, b []T) bool {
	if len(a) != len(b) {
		return false
	}
	for i := range a {
		if !k.strict(a[i], b[i]) {
			return false
		}
	}
	return true
}

func (k *ek[T]) contains(in []T, x T) bool {
	for _, y := range in {
		if k.strict(x, y) {
			return true
		}
	}
	return false
}

func (k *ek[T]) shows(xs []T) []string {
	out := make([]string, len(xs))
	for i, x := range xs {
		out[i] = k.show(x)
	}
	return out
}

// brief prints elements the way the int-only checks printed their ints.
func (k *ek[T]) brief(xs []T) string { return briefS(k.shows(xs)) }

func briefS(v []string) string {
	if len(v) > 80 {
		return fmt.Sprintf("%v...(%d elements)", v[:80], len(v))
	}
	return fmt.Sprint(v)
}

// allFit reports the first value that is not a value of the kind.
func (k *ek[T]) allFit(vss ...[]int) string {
	for _, vs := range vss {
		for _, v := range vs {
			if !k.fits(v) {
				return fmt.Sprintf("VK-INFRA value %d does not fit the element kind %q", v, k.kind)
			}
		}
	}
	return ""
}

func showVID(v, id int) string {
	if v == badV {
		return "<not an element>"
	}
	if id != 0 {
		return strconv.Itoa(v) + "#" + strconv.Itoa(id)
	}
	return strconv.Itoa(v)
}

func anyInt(int) bool { return true }

func noID[T any](T) int { return 0 }

func tagOf(kind string) string { return "[elem=" + kind + "]" }

func intKit() *ek[int] {
	return &ek[int]{kind: elem.Int, direct: true,
		mk:     func(v, _ int) int { return v },
		v:      func(x int) int { return x },
		id:     noID[int],
		strict: func(a, b int) bool { return a == b },
		show:   strconv.Itoa,
		fits:   anyInt, lo: math.MinInt, hi: math.MaxInt,
	}
}

func i16Kit() *ek[int16] {
	return &ek[int16]{kind: elem.I16, tag: tagOf(elem.I16), direct: true,
		mk:     func(v, _ int) int16 { return int16(v) },
		v:      func(x int16) int { return int(x) },
		id:     noID[int16],
		strict: func(a, b int16) bool { return a == b },
		show:   func(x int16) string { return strconv.Itoa(int(x)) },
		fits:   func(v int) bool { return v >= math.MinInt16 && v <= math.MaxInt16 },
		lo:     math.MinInt16, hi: math.MaxInt16,
	}
}

// b8 elements of the utility checks: the n <= b8MaxN slice elements elemBase+i
// are the bytes i, the spare-capacity fillers fillBase-j the bytes 254-j and
// the sentinel is 255.
const b8MaxN = 180

func b8Kit() *ek[b8] {
	v := func(x b8) int {
		switch {
		case x == 255:
			return sentinel
		case x >= b8MaxN:
			return fillBase - (254 - int(x))
		}
		return elemBase + int(x)
	}
	fits := func(v int) bool {
		return v == sentinel || (v >= elemBase && v < elemBase+b8MaxN) || (v <= fillBase && v > fillBase-(255-b8MaxN))
	}
	return &ek[b8]{kind: kindB8, tag: tagOf(kindB8), direct: true,
		mk: func(v, _ int) b8 {
			switch {
			case v == sentinel:
				return 255
			case v <= fillBase:
				return b8(254 - (fillBase - v))
			}
			return b8(v - elemBase)
		},
		v: v, id: noID[b8],
		strict: func(a, b b8) bool { return a == b },
		show:   func(x b8) string { return strconv.Itoa(v(x)) },
		fits:   fits, lo: elemBase, hi: elemBase + b8MaxN - 1,
	}
}

// decodeStr is elem.DecodeStr without the panics (and without fmt: the
// comparison functions handed to the code under test call it in their inner
// loops).
func decodeStr[S string | []byte](s S) (v, id int) {
	if len(s) < 20 {
		return badV, 0
	}
	var u uint64
	for i := 0; i < 20; i++ {
		d := s[i] - '0'
		if d > 9 {
			return badV, 0
		}
		u = u*10 + uint64(d)
	}
	if len(s) > 21 && s[20] == '#' {
		for i := 21; i < len(s); i++ {
			d := s[i] - '0'
			if d > 9 {
				return badV, 0
			}
			id = id*10 + int(d)
		}
	}
	return int(u ^ (1 << 63)), id
}

func strKit() *ek[string] {
	return &ek[string]{kind: elem.Str, tag: tagOf(elem.Str), hasID: true,
		mk:     elem.EncodeStr,
		v:      func(s string) int { v, _ := decodeStr(s); return v },
		id:     func(s string) int { _, id := decodeStr(s); return id },
		strict: func(a, b string) bool { return a == b },
		show:   func(s string) string { return showVID(decodeStr(s)) },
		fits:   anyInt, lo: math.MinInt, hi: math.MaxInt,
	}
}

// kindWords is a second string kind, local to this package (EditScript, LCS,
// LCSFunc): the values 0..11 are the words of collisionWords, every other
// value is elem's 20-digit text; the identity id is a suffix of id blanks (a
// line and the same line with trailing blanks are different elements).  With
// share (a flag of the case) all the elements of one value are re-slices
// m[:len-j] of ONE string (what strings.TrimRight gives), so that different
// elements start at the same address; without it every element has storage of
// its own.
const kindWords = "words"

// collisionWords: neighbours 2i, 2i+1 are different words of equal length and
// equal 32-bit checksum (FNV-1a, FNV-1, Adler-32, twice each; found by search).
var collisionWords = [...]string{
	"yvivst", "csbxun", "mtbupt", "uiukfp", "yygpht", "ryxbtl",
	"vlfqzo", "iqoyrh", "gmrymw", "teikco", "ikezfw", "bkvlro",
}

var wordBlanks = strings.Repeat(" ", 1<<idBits-1)

func decodeWord(s string) (v, id int) {
	n := len(s)
	for n > 0 && s[n-1] == ' ' {
		n--
	}
	id = len(s) - n
	switch n {
	case 6:
		for i, w := range collisionWords {
			if s[:n] == w {
				return i, id
			}
		}
	case 20:
		if v, _ := decodeStr(s[:n]); v != badV && (v < 0 || v >= len(collisionWords)) {
			return v, id
		}
	}
	return badV, 0
}

func wordsKit(share bool) *ek[string] {
	base := func(v int) string {
		if v >= 0 && v < len(collisionWords) {
			return collisionWords[v]
		}
		return elem.EncodeStr(v, 0)
	}
	masters := map[int]string{} // share: value -> its longest element
	return &ek[string]{kind: kindWords, tag: tagOf(kindWords), hasID: true,
		mk: func(v, id int) string {
			b := base(v)
			if !share {
				return strings.Clone(b + wordBlanks[:id])
			}
			m, ok := masters[v]
			if !ok {
				m = b + wordBlanks[:1<<idBits-1]
				masters[v] = m
			}
			return m[:len(b)+id]
		},
		v:      func(s string) int { v, _ := decodeWord(s); return v },
		id:     func(s string) int { _, id := decodeWord(s); return id },
		strict: func(a, b string) bool { return a == b },
		show:   func(s string) string { return showVID(decodeWord(s)) },
		fits:   anyInt, lo: math.MinInt, hi: math.MaxInt,
	}
}

func bytesKit() *ek[[]byte] {
	return &ek[[]byte]{kind: elem.Bytes, tag: tagOf(elem.Bytes), hasID: true,
		mk:     func(v, id int) []byte { return []byte(elem.EncodeStr(v, id)) },
		v:      func(b []byte) int { v, _ := decodeStr(b); return v },
		id:     func(b []byte) int { _, id := decodeStr(b); return id },
		strict: elem.BytesKit().Same,
		show:   func(b []byte) string { return showVID(decodeStr(b)) },
		fits:   anyInt, lo: math.MinInt, hi: math.MaxInt,
	}
}

func wideKit() *ek[elem.WideElem] {
	wk := elem.WideKit()
	pad := wk.Make(0, 0)
	v := func(x elem.WideElem) int {
		if x.Pad0 != pad.Pad0 || x.Pad1 != pad.Pad1 { // e.g. a zero value
			return badV
		}
		return x.Val
	}
	return &ek[elem.WideElem]{kind: elem.Wide, tag: tagOf(elem.Wide), hasID: true,
		mk:     wk.Make,
		v:      v,
		id:     func(x elem.WideElem) int { return x.Tag },
		strict: func(a, b elem.WideElem) bool { return a == b },
		show:   func(x elem.WideElem) string { return showVID(v(x), x.Tag) },
		fits:   anyInt, lo: math.MinInt, hi: math.MaxInt,
	}
}

// cellTable holds the identities of the pointer elements of one case.
type cellTable map[*elem.Cell]int

func (t cellTable) mk(v, id int) *elem.Cell {
	c := &elem.Cell{V: v} // a NEW pointer on every call
	t[c] = id
	return c
}

func (t cellTable) v(c *elem.Cell) int {
	if c == nil {
		return badV
	}
	return c.V
}

func (t cellTable) id(c *elem.Cell) int {
	if id, ok := t[c]; ok {
		return id
	}
	return -1 // a pointer the harness never made
}

func (t cellTable) show(c *elem.Cell) string {
	if c == nil {
		return "<nil>"
	}
	if _, ok := t[c]; !ok {
		return strconv.Itoa(c.V) + "#<foreign pointer>"
	}
	return showVID(c.V, t[c])
}

func ptrKit() *ek[*elem.Cell] {
	t := cellTable{}
	return &ek[*elem.Cell]{kind: elem.Ptr, tag: tagOf(elem.Ptr), hasID: true,
		mk: t.mk, v: t.v, id: t.id, show: t.show,
		strict: func(a, b *elem.Cell) bool { return a == b },
		fits:   anyInt, lo: math.MinInt, hi: math.MaxInt,
	}
}

func anyKit() *ek[any] {
	t := cellTable{}
	cell := func(x any) *elem.Cell { c, _ := x.(*elem.Cell); return c }
	return &ek[any]{kind: elem.Any, tag: tagOf(elem.Any), hasID: true,
		mk:     func(v, id int) any { return t.mk(v, id) },
		v:      func(x any) int { return t.v(cell(x)) },
		id:     func(x any) int { return t.id(cell(x)) },
		strict: func(a, b any) bool { return cell(a) != nil && cell(a) == cell(b) },
		show: func(x any) string {
			if _, ok := x.(*elem.Cell); !ok {
				return fmt.Sprintf("<%T>", x)
			}
			return t.show(cell(x))
		},
		fits: anyInt, lo: math.MinInt, hi: math.MaxInt,
	}
}

// The zero-size kinds, local to this package: struct{} ("unit"), [0]int
// ("zarr") and the zero-size type that is NOT comparable, [0]func() ("zfn":
// only where the functions take any element type).  Such a type has one
// value, so a slice of it is just a length - which may be as large as
// math.MaxInt, since the slice takes no memory (see checkUtilZero).
const (
	kindUnit = "unit"
	kindZarr = "zarr"
	kindZfn  = "zfn"
)

var zeroKinds = []string{kindUnit, kindZarr, kindZfn}

// zeroKindsCmp are the comparable ones.
var zeroKindsCmp = []string{kindUnit, kindZarr}

func isZeroKind(kind string) bool { return kind == kindUnit || kind == kindZarr || kind == kindZfn }

// zeroKit is the kit of a zero-size element type: the only value is 0.
func zeroKit[T any](kind string) *ek[T] {
	var z T
	return &ek[T]{kind: kind, tag: tagOf(kind), direct: true, flat: true,
		mk:     func(int, int) T { return z },
		v:      func(T) int { return 0 },
		id:     noID[T],
		strict: func(T, T) bool { return true },
		show:   func(T) string { return "{}" },
		fits:   func(v int) bool { return v == 0 },
	}
}

// zeros is a sequence of n zeros (what a sequence of a flat kind is).
func zeros(n int) []int { return make([]int, n) }

// maxF64 bounds the ints a float64 holds exactly.
const maxF64 = 1<<53 - 1

func f64Kit() *ek[float64] {
	return &ek[float64]{kind: elem.F64, tag: tagOf(elem.F64), direct: true,
		mk: func(v, id int) float64 {
			if v == 0 && id&1 == 1 {
				return math.Copysign(0, -1)
			}
			return float64(v)
		},
		v: func(x float64) int {
			if x != math.Trunc(x) || x < -maxF64 || x > maxF64 { // also NaN
				return badV
			}
			return int(x)
		},
		id:     noID[float64],
		strict: func(a, b float64) bool { return math.Float64bits(a) == math.Float64bits(b) },
		show:   func(x float64) string { return strconv.FormatFloat(x, 'g', -1, 64) },
		fits:   func(v int) bool { return v >= -maxF64 && v <= maxF64 },
		lo:     -maxF64, hi: maxF64,
		isNaN: func(x float64) bool { return x != x },
	}
}

// Kinds per function family, for the generators and the exhaustive legs.
var (
	// EditScript and LCS need comparable elements.
	kindsComparable = []string{elem.Str, elem.I16, elem.Wide, elem.Ptr, elem.Any, elem.F64, kindWords}
	// LCSFunc takes any element type.
	kindsLCSFunc = []string{elem.Str, elem.I16, elem.Wide, elem.Ptr, elem.Any, elem.F64, kindWords, elem.Bytes}
	// so do LISFunc and LNDSFunc.
	kindsAny = []string{elem.Str, elem.I16, elem.Wide, elem.Ptr, elem.Any, elem.F64, elem.Bytes}
	// LIS and LNDS need cmp.Ordered.
	kindsOrdered = []string{elem.Str, elem.I16, elem.F64}
	// the slice utilities: any element type, and the 1-byte b8.
	kindsUtil = []string{elem.Str, elem.I16, elem.Wide, elem.Ptr, elem.Any, elem.F64, elem.Bytes, kindB8}
)

// elemClassNames are the elem=<kind> classes, appended to every property's
// label table; elemClass is the index of a kind in it.
var elemClassNames = []string{"elem=int", "elem=string", "elem=i16", "elem=wide", "elem=ptr", "elem=any", "elem=f64", "elem=bytes", "elem=b8", "elem=words", "elem=unit(struct{})", "elem=zarr([0]int)", "elem=zfn([0]func())"}

func elemClass(kind string) int {
	switch kind {
	case elem.Str:
		return 1
	case elem.I16:
		return 2
	case elem.Wide:
		return 3
	case elem.Ptr:
		return 4
	case elem.Any:
		return 5
	case elem.F64:
		return 6
	case elem.Bytes:
		return 7
	case kindB8:
		return 8
	case kindWords:
		return 9
	case kindUnit:
		return 10
	case kindZarr:
		return 11
	case kindZfn:
		return 12
	}
	return 0
}

func badKind(fn, kind string) string {
	return fmt.Sprintf("VK-INFRA %s cannot be instantiated with the element kind %q", fn, kind)
}

// cycleKind spreads the exhaustive legs over the element kinds by (a hash of
// the) case index: half of the indices keep the original int elements, the
// others are dealt evenly to the kinds.  The second result is the rest of the
// hash (identity patterns).
func cycleKind(i int, kinds []string) (string, uint64) {
	h := mix(i)
	if h&1 == 0 {
		return "", h >> 8
	}
	return kinds[(h>>1)%uint64(len(kinds))], h >> 8
}

// mix is a cheap hash of a case index (for the identity patterns of the
// exhaustive legs).
func mix(i int) uint64 {
	x := uint64(i)*0x9e3779b97f4a7c15 + 0x632be59bd9b4e019
	x ^= x >> 29
	x *= 0xbf58476d1ce4e5b9
	x ^= x >> 32
	return x
}
