package pslice

import (
	"fmt"
	"math"
	"runtime"
	"runtime/debug"
	"slices"
	"sort"
	"sync"
	"testing"

	"pgregory.net/rapid"
	"verif/elem"
	"verif/vk"
)

func init() {
	vk.Register("C11", "exh", runC11)
	vk.Register("C11", "rand", runC11)
	vk.Register("C11", "alias", runC11)
	vk.Register("C11", "big", runC11)
	vk.Register("C12", "lisexh", runC12Seq)
	vk.Register("C12", "lisrand", runC12Seq)
	vk.Register("C12", "lisbig", runC12Seq)
	vk.Register("C12", "conc", runConcSeq)
	vk.Register("C12", "lcsexh", runC12LCS)
	vk.Register("C12", "lcsrand", runC12LCS)
	vk.Register("C17", "exh", runC17)
	vk.Register("C17", "rand", runC17)
	vk.Register("C17", "rotbig", runC17)
}

func TestReplay(t *testing.T) { vk.ReplayMain(t) }

// ---------------------------------------------------------------------------
// Exhaustive runner: the space is cut into levels of equal case size which are
// run one after the other (so the first failing level holds the smallest
// failing cases); inside a level the cases are spread over all cores.

type slot interface {
	Enter(c any)
	Leave()
}

type exhRunner[C any] struct {
	h        *vk.H
	t        *testing.T
	names    []string
	check    func(C) (info, string)
	tl       []*vk.Tally
	cls      [][64]int64
	slots    []slot
	oldGC    int
	oldLimit int64

	mu       sync.Mutex
	failMsg  string
	failSize int
	failPath string
}

func newExh[C any](h *vk.H, t *testing.T, names []string, check func(C) (info, string)) *exhRunner[C] {
	w := runtime.GOMAXPROCS(0)
	e := &exhRunner[C]{h: h, t: t, names: names, check: check, cls: make([][64]int64, w)}
	// The live heap is tiny and every case allocates a little, so with the
	// default setting the collector runs thousands of times per second and
	// its pauses serialise the workers.  Collect by a soft memory limit
	// instead: a cycle starts only when the heap reaches 384 MB.
	e.oldGC = debug.SetGCPercent(-1)
	e.oldLimit = debug.SetMemoryLimit(384 << 20)
	for i := 0; i < w; i++ {
		e.tl = append(e.tl, vk.NewTally())
		e.slots = append(e.slots, h.Slot())
	}
	return e
}

// level runs the n cases decode(0..n-1) (decode may skip an index by
// returning false) and reports whether the property held on all of them.
func (e *exhRunner[C]) level(n int, decode func(i int) (C, bool)) bool {
	if n <= 0 || e.h.Failed() {
		return !e.h.Failed()
	}
	vk.Parallel(e.h, n, func(w, i int) {
		c, ok := decode(i)
		if !ok {
			return
		}
		var in info
		e.slots[w].Enter(c)
		msg := vk.Guard(func() string {
			var m string
			in, m = e.check(c)
			return m
		})
		e.slots[w].Leave()
		if msg != "" {
			p := e.h.Fail(c, msg)
			sz := len(fmt.Sprintf("%+v", c))
			e.mu.Lock()
			if e.failMsg == "" || sz < e.failSize {
				e.failMsg, e.failSize, e.failPath = msg, sz, p
			}
			e.mu.Unlock()
			return
		}
		tl := e.tl[w]
		tl.Evals++
		if in.nt {
			tl.NT++
		}
		for b := 0; in.cls>>uint(b) != 0; b++ {
			if in.cls&(1<<uint(b)) != 0 {
				e.cls[w][b]++
			}
		}
		if tl.Evals%4096 == 1 || (in.nt && tl.NT%1024 == 1) {
			e.h.Sample(c, in.nt)
		}
	})
	return !e.h.Failed()
}

// finish merges the counters; complete says whether the whole finite space
// was enumerated.  It fails the test if a violation was recorded.
func (e *exhRunner[C]) finish(complete bool) {
	debug.SetGCPercent(e.oldGC)
	debug.SetMemoryLimit(e.oldLimit)
	for w, tl := range e.tl {
		for b, name := range e.names {
			if e.cls[w][b] != 0 {
				tl.Classes[name] += e.cls[w][b]
			}
		}
		e.h.MergeTally(tl)
	}
	if e.h.Failed() {
		e.t.Fatalf("VK-VIOLATION property=%s leg=%s replay=%s\n%s", e.h.Prop, e.h.Leg, e.failPath, e.failMsg)
	}
	if complete {
		e.h.Exhaustive()
	}
}

func ipow(b, e int) int {
	r := 1
	for ; e > 0; e-- {
		r *= b
	}
	return r
}

// digits writes the length-l base-k expansion of x.
func digits(x, k, l int) []int {
	d := make([]int, l)
	for i := 0; i < l; i++ {
		d[i] = x % k
		x /= k
	}
	return d
}

// pairSpace enumerates all pairs (a, b) of sequences over {0..k-1} with
// lengths <= maxLen, level by level in total length.  Only pairs with
// max(len) > above are produced, and (needTop) only pairs that use the
// symbol k-1 — so that spaces over growing alphabets / lengths do not overlap.
type pairSpace struct {
	k, maxLen, above int
	needTop          bool
}

func (p pairSpace) levels() int { return 2*p.maxLen + 1 }

// level returns the number of indices of total length s and the decoder.
func (p pairSpace) level(s int) (int, func(i int) (a, b []int, ok bool)) {
	lo, hi := max(0, s-p.maxLen), min(s, p.maxLen)
	var las []int
	for la := lo; la <= hi; la++ {
		if max(la, s-la) > p.above {
			las = append(las, la)
		}
	}
	per := ipow(p.k, s)
	return len(las) * per, func(i int) ([]int, []int, bool) {
		la := las[i/per]
		r := i % per
		ka := ipow(p.k, la)
		a, b := digits(r%ka, p.k, la), digits(r/ka, p.k, s-la)
		if p.needTop {
			top := false
			for _, x := range a {
				top = top || x == p.k-1
			}
			for _, x := range b {
				top = top || x == p.k-1
			}
			if !top {
				return nil, nil, false
			}
		}
		return a, b, true
	}
}

func (p pairSpace) String() string {
	s := fmt.Sprintf("all pairs over {0..%d} with both lengths <= %d", p.k-1, p.maxLen)
	if p.above >= 0 {
		s += fmt.Sprintf(" and max length > %d", p.above)
	}
	if p.needTop {
		s += fmt.Sprintf(" that use the symbol %d", p.k-1)
	}
	return s
}

// pairSpaces are the exhaustive scopes of C11 (each pair once) and of C12/LCS
// (lcs: each pair twice, with == and with the folding equality, hence one
// step smaller).
func pairSpaces(h *vk.H, lcs bool) []pairSpace {
	d := 0
	if lcs {
		d = 1
	}
	if h.Thorough() {
		return []pairSpace{
			{k: 3, maxLen: 8 - d, above: -1},
			{k: 2, maxLen: 11 - d, above: 8 - d},
			{k: 4, maxLen: 6 - d, above: -1, needTop: true},
		}
	}
	return []pairSpace{
		{k: 3, maxLen: 6 - d, above: -1},
		{k: 2, maxLen: 9 - d, above: 6 - d},
	}
}

// ---------------------------------------------------------------------------
// Shared rapid generators for sequences and pairs.

// genLen draws a length in [0, maxLen] from explicit buckets (rapid's own
// integer and slice generators lean towards tiny values, which would leave
// the long inputs thin).
func genLen(t *rapid.T, label string, maxLen int) int {
	// (rapid favours the first values of a range, so the order matters)
	switch rapid.IntRange(0, 9).Draw(t, label+"_lenBucket") {
	case 0, 1, 2:
		return rapid.IntRange(min(13, maxLen), max(min(13, maxLen), maxLen/2)).Draw(t, label+"_len")
	case 3, 4, 5:
		return rapid.IntRange(min(4, maxLen), min(12, maxLen)).Draw(t, label+"_len")
	case 6, 7, 8:
		return rapid.IntRange(maxLen/2, maxLen).Draw(t, label+"_len")
	}
	return rapid.IntRange(0, min(3, maxLen)).Draw(t, label+"_len")
}

// genRuns draws a sequence of n elements over {0..k-1} as runs of equal
// elements of length <= maxRun.
func genRuns(t *rapid.T, label string, k, n, maxRun int) []int {
	out := make([]int, 0, n)
	for len(out) < n {
		v := rapid.IntRange(0, k-1).Draw(t, label+"_v")
		l := rapid.IntRange(1, maxRun).Draw(t, label+"_l")
		for ; l > 0 && len(out) < n; l-- {
			out = append(out, v)
		}
	}
	return out
}

// genBase draws a base sequence: uniform, runs of equals, or periodic.
func genBase(t *rapid.T, label string, k, maxLen int) []int {
	return genBaseN(t, label, k, genLen(t, label, maxLen))
}

// genBaseN is genBase with the length given.
func genBaseN(t *rapid.T, label string, k, n int) []int {
	switch rapid.IntRange(0, 2).Draw(t, label+"_shape") {
	case 0:
		return rapid.SliceOfN(rapid.IntRange(0, k-1), n, n).Draw(t, label+"_uniform")
	case 1:
		return genRuns(t, label, k, n, max(2, n/5))
	}
	unit := rapid.SliceOfN(rapid.IntRange(0, k-1), 1, 4).Draw(t, label+"_unit")
	out := make([]int, n)
	for i := range out {
		out[i] = unit[i%len(unit)]
	}
	return out
}

// cross swaps the adjacent blocks s[p:p+l] and s[p+l:p+2l] in place (l is
// reduced to fit): a common subsequence can keep one of the two blocks only.
func cross(s []int, pos, l int) []int {
	n := len(s)
	if n < 2 {
		return s
	}
	l = max(1, min(l, n/2))
	p := pos % (n - 2*l + 1)
	for i := 0; i < l; i++ {
		s[p+i], s[p+l+i] = s[p+l+i], s[p+i]
	}
	return s
}

// mutate applies a few point / block mutations to a copy of base.
func mutate(t *rapid.T, label string, base []int, k, maxLen int) []int {
	out := append([]int(nil), base...)
	nm := rapid.IntRange(1, 4+len(base)/8).Draw(t, label+"_nmut")
	for x := 0; x < nm; x++ {
		kind := rapid.IntRange(0, 6).Draw(t, label+"_kind")
		pos := rapid.IntRange(0, 255).Draw(t, label+"_pos")
		val := rapid.IntRange(0, k-1).Draw(t, label+"_val")
		ln := rapid.IntRange(1, 6).Draw(t, label+"_len")
		n := len(out)
		switch kind {
		case 0: // swap two adjacent blocks of equal length (two equally good alignments)
			out = cross(out, pos, ln)
		case 1: // substitute
			if n > 0 {
				out[pos%n] = val
			}
		case 2: // insert one
			p := pos % (n + 1)
			out = append(out[:p], append([]int{val}, out[p:]...)...)
		case 3: // delete one
			if n > 0 {
				p := pos % n
				out = append(out[:p], out[p+1:]...)
			}
		case 4: // duplicate a block in place (repetition)
			if n > 0 {
				p := pos % n
				blk := append([]int(nil), out[p:min(n, p+ln)]...)
				out = append(out[:p], append(blk, out[p:]...)...)
			}
		case 5: // insert a run of equal elements
			p := pos % (n + 1)
			run := make([]int, ln)
			for i := range run {
				run[i] = val
			}
			out = append(out[:p], append(run, out[p:]...)...)
		case 6: // delete a block
			if n > 0 {
				p := pos % n
				out = append(out[:p], out[min(n, p+ln):]...)
			}
		}
	}
	if len(out) > maxLen {
		out = out[:maxLen]
	}
	return out
}

// genPair draws two sequences over {0..k-1} of length <= maxLen: mostly two
// mutated copies of a common base (long common runs, many equally good
// alignments), sometimes independent or identical.
func genPair(t *rapid.T, k, maxLen int) (a, b []int) {
	base := genBase(t, "base", k, maxLen)
	// (rapid favours the first values of a range, so the main shape comes first)
	switch rapid.IntRange(0, 11).Draw(t, "pairShape") {
	case 6, 7: // a rotation of the same sequence: two long common runs in the wrong order
		a, b = base, append([]int(nil), base...)
		if len(base) > 0 {
			r := rapid.IntRange(0, len(base)-1).Draw(t, "rot")
			b = append(append([]int(nil), base[r:]...), base[:r]...)
		}
		if rapid.Bool().Draw(t, "rotMut") {
			a = mutate(t, "a", base, k, maxLen)
		}
	case 8: // one side is the base itself
		a, b = base, mutate(t, "b", base, k, maxLen)
		if rapid.Bool().Draw(t, "baseRight") {
			a, b = b, a
		}
	case 9, 11: // independent
		a, b = base, genBase(t, "other", k, maxLen)
	case 10: // identical
		return base, append([]int(nil), base...)
	default:
		a, b = mutate(t, "a", base, k, maxLen), mutate(t, "b", base, k, maxLen)
	}
	// by construction: most pairs get crossings (the ambiguous alignments)
	for x := rapid.SampledFrom([]int{1, 2, 0, 3}).Draw(t, "crossings"); x > 0; x-- {
		b = cross(b, rapid.IntRange(0, 255).Draw(t, "crossPos"), rapid.IntRange(1, 4).Draw(t, "crossLen"))
	}
	return a, b
}

// genRoundSizes draws two lengths that sit at (or next to) the round numbers
// fixed-size buffers and size thresholds are made of: both lengths at R, the
// sum at R, or the product at R.
func genRoundSizes(t *rapid.T) (la, lb int) {
	R := rapid.SampledFrom([]int{100, 64, 128, 200, 256, 512, 1000, 1024}).Draw(t, "roundNumber")
	off := func(label string) int { return rapid.SampledFrom([]int{0, 0, 0, 0, -1, 1}).Draw(t, label) }
	switch rapid.IntRange(0, 3).Draw(t, "roundKind") {
	case 0, 1: // both lengths (cost: the product; the large ones are rare)
		if R > 256 && !vk.Rare(t, "roundBothLarge", 6) {
			R = rapid.SampledFrom([]int{100, 64, 128, 200, 256}).Draw(t, "roundNumberSmall")
		}
		return R + off("offA"), R + off("offB")
	case 2: // the sum
		s := R + off("offSum")
		la = rapid.SampledFrom([]int{s / 2, s / 2, s / 4, s - 1, rapid.IntRange(0, s).Draw(t, "sumSplit")}).Draw(t, "sumA")
		return la, s - la
	}
	// the product
	var divs []int
	for d := 1; d <= R; d++ {
		if R%d == 0 {
			divs = append(divs, d)
		}
	}
	la = rapid.SampledFrom(divs).Draw(t, "divisor")
	return la, max(0, R/la+off("offProd"))
}

// fitLen cuts s to n elements or extends it with uniform elements.
func fitLen(t *rapid.T, label string, s []int, k, n int) []int {
	if len(s) >= n {
		return s[:n]
	}
	return append(s, rapid.SliceOfN(rapid.IntRange(0, k-1), n-len(s), n-len(s)).Draw(t, label+"_ext")...)
}

// genRoundPair draws a pair with lengths from genRoundSizes: two versions of
// one base, or independent sequences.
func genRoundPair(t *rapid.T) (a, b []int) {
	la, lb := genRoundSizes(t)
	k := rapid.SampledFrom([]int{3, 2, 4, 8, 30}).Draw(t, "roundAlphabet")
	if la*lb > 40000 {
		k = min(k, 4) // (the reference that counts the optimal solutions is linear in k)
	}
	a = genBaseN(t, "ra", k, la)
	if rapid.IntRange(0, 3).Draw(t, "roundIndep") == 0 {
		return a, genBaseN(t, "rb", k, lb)
	}
	b = fitLen(t, "rb", mutate(t, "rb", a, k, 1<<20), k, lb)
	if rapid.Bool().Draw(t, "roundMutA") {
		a = fitLen(t, "ra", mutate(t, "ra2", a, k, 1<<20), k, la)
	}
	return a, b
}

// genBlockPair draws the shape real diffs have: two long versions of one
// sequence that differ by a few BLOCK edits.  The base mixes fresh distinct
// values with short runs of repeats; edits insert blocks whose sizes sit
// around the constants optimised diff implementations use (8, 16, 32, 64),
// delete a few elements, double an element, or swap neighbours.  One mode keeps
// one side entirely free of duplicates.
func genBlockPair(t *rapid.T) (a, b []int) {
	n := rapid.SampledFrom([]int{40, 70, 100, 100, 150, 220}).Draw(t, "bpLen")
	distinct := rapid.IntRange(0, 2).Draw(t, "bpDistinct") == 0
	next := 1000
	var base []int
	for len(base) < n {
		if !distinct && rapid.IntRange(0, 2).Draw(t, "bpRun") == 0 {
			v := rapid.IntRange(0, 3).Draw(t, "bpRunVal")
			for k := rapid.IntRange(1, 4).Draw(t, "bpRunLen"); k > 0; k-- {
				base = append(base, v)
			}
		} else {
			base = append(base, next)
			next++
		}
	}
	edit := func(label string, in []int) []int {
		out := append([]int(nil), in...)
		for e := rapid.IntRange(0, 3).Draw(t, label+"Edits"); e > 0; e-- {
			i := rapid.IntRange(0, len(out)).Draw(t, label+"Pos")
			switch rapid.IntRange(0, 5).Draw(t, label+"Kind") {
			case 0, 1: // insert a block of fresh values
				k := rapid.SampledFrom([]int{1, 2, 3, 7, 8, 9, 15, 16, 17, 30, 31, 32, 32, 33, 34, 63, 64, 65}).Draw(t, label+"Block")
				blk := make([]int, k)
				for j := range blk {
					blk[j] = next
					next++
				}
				out = append(out[:i], append(blk, out[i:]...)...)
			case 2: // delete 1..3 elements
				k := min(rapid.IntRange(1, 3).Draw(t, label+"Del"), len(out)-i)
				out = append(out[:i], out[i+k:]...)
			case 3: // double an element
				if i < len(out) {
					out = append(out[:i], append([]int{out[i]}, out[i:]...)...)
				}
			case 4: // swap neighbours
				if i+1 < len(out) {
					out[i], out[i+1] = out[i+1], out[i]
				}
			default: // a run of repeats right here
				v := rapid.IntRange(0, 3).Draw(t, label+"RepVal")
				k := rapid.IntRange(2, 6).Draw(t, label+"RepLen")
				blk := make([]int, k)
				for j := range blk {
					blk[j] = v
				}
				out = append(out[:i], append(blk, out[i:]...)...)
			}
		}
		return out
	}
	if distinct && rapid.Bool().Draw(t, "bpOneSidePure") {
		return edit("bpa", base), base // b is duplicate-free, a may repeat elements of it
	}
	return edit("bpa", base), edit("bpb", base)
}

// ---------------------------------------------------------------------------
// Element kinds (see kinds.go).

// genElem draws the element kind of a case: half of the cases keep the
// original int elements, the others are spread over kinds.
func genElem(t *rapid.T, kinds []string) string {
	if rapid.Bool().Draw(t, "elemInt") {
		return ""
	}
	return rapid.SampledFrom(kinds).Draw(t, "elem")
}

// hasTwins: the kind has elements that look equal and are not the same
// (identities; for f64 the two zeros).
func hasTwins(kind string) bool {
	switch kind {
	case elem.Str, elem.Wide, elem.Ptr, elem.Any, elem.Bytes, elem.F64, kindWords:
		return true
	}
	return false
}

// genIDs draws the identities of a sequence of n elements: a few positions
// with a non-zero identity, or (dense; always for f64, where only the zeros
// care) a random bit per position.
func genIDs(t *rapid.T, label string, n int, dense bool) []int {
	if n == 0 {
		return nil
	}
	if dense {
		return rapid.SliceOfN(rapid.IntRange(0, 1), n, n).Draw(t, label+"_idBits")
	}
	ids := make([]int, n)
	for _, p := range rapid.SliceOfN(rapid.IntRange(0, 1023), 0, 4).Draw(t, label+"_idPos") {
		ids[p%n] = 1 + p%2
	}
	return ids
}

// genTwinIDs draws identities that differ from ids at one to three positions
// (the same values, other elements).
func genTwinIDs(t *rapid.T, label string, ids []int, n int) []int {
	out := make([]int, n)
	copy(out, ids)
	if n == 0 {
		return out
	}
	for _, p := range rapid.SliceOfN(rapid.IntRange(0, 1023), 1, 3).Draw(t, label+"_twinPos") {
		out[p%n] = (out[p%n] + 1 + p/n%2) % 3
	}
	return out
}

// genPairIDs decorates a pair of sequences of a kind with twins.  One case in
// three is the trap of a structural comparison: b becomes a copy of a's
// VALUES and only some identities differ (ptr / any: distinct pointers to
// deeply equal pointees; f64: zeros of the other sign, which leaves the
// inputs equal).
func genPairIDs(t *rapid.T, kind string, a, b []int) (a2, b2, aid, bid []int) {
	dense := kind == elem.F64 || rapid.IntRange(0, 3).Draw(t, "idDense") == 0
	aid = genIDs(t, "a", len(a), dense)
	if rapid.IntRange(0, 2).Draw(t, "idClone") == 0 {
		b = append([]int(nil), a...)
		if kind == elem.F64 {
			return a, b, aid, genIDs(t, "b", len(b), true)
		}
		return a, b, aid, genTwinIDs(t, "b", aid, len(b))
	}
	return a, b, aid, genIDs(t, "b", len(b), dense)
}

// twinDigits reads the digits of an exhaustive scope as elements of a kind
// with identities: the digits 2v and 2v+1 are the two identities of the value
// v.  The digits stay what the references see (distinct digits are distinct
// elements), and neighbours are equal-looking.
func twinDigits(ds []int) (vs, ids []int) {
	vs, ids = make([]int, len(ds)), make([]int, len(ds))
	for i, d := range ds {
		vs[i], ids[i] = d>>1, d&1
	}
	return
}

// bitIDs takes n identity bits from a hash.
func bitIDs(h uint64, n int) []int {
	ids := make([]int, n)
	for i := range ids {
		ids[i] = int(h >> (uint(i) % 48) & 1)
	}
	return ids
}

// exhPairElem gives the pair (a, b) of an exhaustive scope its element kind
// by case index: identities by twinDigits (twin) or from the hash.
func exhPairElem(idx int, kinds []string, twin bool, a, b []int) (kind string, a2, b2, aid, bid []int, share bool) {
	kind, h := cycleKind(idx, kinds)
	switch {
	case !hasTwins(kind):
		return kind, a, b, nil, nil, false
	case twin && kind != elem.F64:
		a2, aid = twinDigits(a)
		b2, bid = twinDigits(b)
		return kind, a2, b2, aid, bid, h&1 == 1
	}
	return kind, a, b, bitIDs(h>>1, len(a)), bitIDs(h>>25, len(b)), h&1 == 1
}

// genPoison draws a poison call (see Poison) out of fns, one case in `every`.
// It is drawn LAST in a case, so that the cases come out as they did before.
func genPoison(t *rapid.T, every int, fns []string) *Poison {
	if !vk.Rare(t, "poison", every) {
		return nil
	}
	p := &Poison{Fn: rapid.SampledFrom(fns).Draw(t, "poisonFn"), After: rapid.IntRange(0, 3).Draw(t, "poisonAfter") == 0}
	switch p.Fn {
	case "editany", "lcsany": // mostly late: matches have been recorded by then
		p.P = rapid.SampledFrom([]int{-1, -1, -2, rapid.IntRange(0, poisonMaxLen).Draw(t, "poisonAnyP")}).Draw(t, "poisonP")
		p.Q = rapid.SampledFrom([]int{-1, -1, -2, rapid.IntRange(0, poisonMaxLen).Draw(t, "poisonAnyQ")}).Draw(t, "poisonQ")
	default: // the last call, the one before, half way, anywhere
		p.J = rapid.SampledFrom([]int{-2, -3, -2, rapid.IntRange(0, poisonMaxLen*poisonMaxLen).Draw(t, "poisonAnyJ")}).Draw(t, "poisonJ")
	}
	return p
}

var (
	poisonLCS = []string{"lcsfunc", "editany", "lcsany", "lcsfunc", "lis", "lnds"}
	poisonLIS = []string{"lis", "lnds", "lis", "lnds", "lcsfunc", "editany"}
)

// exhPoison gives one exhaustive case in 32 (by a hash of its index) a poison call.
func exhPoison(idx int, fns []string) *Poison {
	h := mix(idx ^ 0x5bd1e995)
	if h%32 != 0 {
		return nil
	}
	h >>= 5
	return &Poison{Fn: fns[h%uint64(len(fns))], J: -1 - int(h>>8%4), P: -1 - int(h>>10%3), Q: -1 - int(h>>12%3), After: h>>16%4 == 0}
}

// genZeroKind: one case in `every` runs on a zero-size element type (drawn last).
func genZeroKind(t *rapid.T, every int, kinds []string) string {
	if !vk.Rare(t, "zeroSize", every) {
		return ""
	}
	return rapid.SampledFrom(kinds).Draw(t, "zeroKind")
}

// ---------------------------------------------------------------------------
// C11.

// genEditCase: a pair, sometimes followed by rounds of in-place updates and
// / or by a second pair (mostly of the same element kind).
func genEditCase(t *rapid.T) EditCase {
	c := genEditOne(t)
	if rapid.IntRange(0, 3).Draw(t, "withRounds") == 0 {
		genEditRounds(t, &c)
	}
	if rapid.IntRange(0, 7).Draw(t, "withThen") == 0 {
		th := genEditOne(t)
		if rapid.IntRange(0, 3).Draw(t, "thenOtherKind") != 0 {
			th.Elem = c.Elem // (identities drawn for another kind are harmless)
			th.Share = th.Share && th.Elem == kindWords
		}
		c.Then = &th
	}
	// (the following are drawn last, so that the cases above come out as they always did)
	if zk := genZeroKind(t, 16, zeroKindsCmp); zk != "" {
		c.Elem, c.Share = zk, false
		if c.Then != nil {
			c.Then.Elem, c.Then.Share = zk, false
		}
	}
	c.Poison = genPoison(t, 6, poisonLCS)
	return c
}

// genEditRounds adds one or two rounds: rhs := lhs and / or a few writes of
// elements that occur somewhere in the inputs.
func genEditRounds(t *rapid.T, c *EditCase) {
	vals, ids := append(append([]int(nil), c.Lhs...), c.Rhs...), append(fullIDs(c.LID, len(c.Lhs)), fullIDs(c.RID, len(c.Rhs))...)
	if c.Buf != nil {
		vals, ids = c.Buf, fullIDs(c.BID, len(c.Buf))
	}
	writes := func(label string, n int) (ws [][3]int) {
		for ; n > 0 && len(vals) > 0; n-- {
			src := rapid.IntRange(0, len(vals)-1).Draw(t, label+"Src")
			ws = append(ws, [3]int{rapid.IntRange(0, 1<<16).Draw(t, label+"Pos"), vals[src], ids[src]})
		}
		return ws
	}
	for r := rapid.SampledFrom([]int{1, 1, 1, 2}).Draw(t, "rounds"); r > 0; r-- {
		rd := EditRound{Same: rapid.IntRange(0, 3).Draw(t, "roundSame") == 0}
		nl, nr := rapid.IntRange(0, 2).Draw(t, "roundL"), rapid.IntRange(0, 2).Draw(t, "roundR")
		if !rd.Same && nl+nr == 0 {
			nl = 1
		}
		rd.L, rd.R = writes("roundL", nl), writes("roundR", nr)
		c.Rounds = append(c.Rounds, rd)
	}
}

// genEditOne draws one input pair and its element kind.
func genEditOne(t *rapid.T) EditCase {
	c := genEditInts(t)
	c.Elem = genElem(t, kindsComparable)
	if !hasTwins(c.Elem) {
		return c
	}
	c.Share = c.Elem == kindWords && rapid.Bool().Draw(t, "share")
	if c.Buf != nil {
		c.BID = genIDs(t, "buf", len(c.Buf), c.Elem == elem.F64 || rapid.Bool().Draw(t, "idDense"))
		return c
	}
	c.Lhs, c.Rhs, c.LID, c.RID = genPairIDs(t, c.Elem, c.Lhs, c.Rhs)
	return c
}

// genEditInts draws the values of a case.
func genEditInts(t *rapid.T) EditCase {
	if rapid.IntRange(0, 2).Draw(t, "blockShape") == 0 {
		a, b := genBlockPair(t)
		if rapid.Bool().Draw(t, "blockSwap") {
			a, b = b, a
		}
		return EditCase{Lhs: a, Rhs: b}
	}
	if rapid.IntRange(0, 9).Draw(t, "roundShape") == 0 {
		a, b := genRoundPair(t)
		return EditCase{Lhs: a, Rhs: b}
	}
	k := rapid.IntRange(2, 4).Draw(t, "alphabet")
	a, b := genPair(t, k, 60)
	if rapid.IntRange(0, 5).Draw(t, "shared") == 0 && len(a) > 0 {
		// two windows of one buffer
		w := func(label string) [2]int {
			i := rapid.IntRange(0, len(a)).Draw(t, label+"lo")
			return [2]int{i, rapid.IntRange(i, len(a)).Draw(t, label+"hi")}
		}
		return EditCase{Buf: a, LV: w("l"), RV: w("r")}
	}
	return EditCase{Lhs: a, Rhs: b}
}

func TestC11Rand(t *testing.T) {
	h := vk.Start(t, "C11", "rand")
	vk.Rapid(h, t, genEditCase, runC11)
}

// genBigEdit: inputs of 1000..5000 elements that differ in a few places (the
// realistic shape of a diff), so that len(lhs)*len(rhs) crosses 2^20 .. 2^24.
func genBigEdit(t *rapid.T) EditCase {
	n := rapid.SampledFrom([]int{1100, 2050, 4097, 4100, 4200, 5000}).Draw(t, "n")
	c := EditCase{BigN: n, Swap: rapid.Bool().Draw(t, "swap")}
	if rapid.IntRange(0, 2).Draw(t, "repeats") == 0 {
		c.BigMod = rapid.SampledFrom([]int{2, 7, 100, 1000}).Draw(t, "mod")
	}
	c.BigDel = rapid.SliceOfNDistinct(rapid.IntRange(0, n-1), 0, 6, rapid.ID[int]).Draw(t, "del")
	c.BigIns = rapid.SliceOfN(rapid.IntRange(0, n), 0, 6).Draw(t, "ins")
	if len(c.BigDel)+len(c.BigIns) == 0 || rapid.IntRange(0, 3).Draw(t, "early") == 0 {
		c.BigDel = append(c.BigDel, rapid.IntRange(0, 20).Draw(t, "earlyDel")) // a difference near the start
	}
	c.Elem = genElem(t, kindsComparable)
	if rapid.IntRange(0, 2).Draw(t, "withRound") == 0 {
		// one round of in-place writes: a value from the other end, or a new one
		val := func(label string) int {
			v := rapid.IntRange(-9, n-1).Draw(t, label)
			if v >= 0 && c.BigMod > 0 {
				v %= c.BigMod
			}
			return v
		}
		rd := EditRound{Same: rapid.IntRange(0, 3).Draw(t, "roundSame") == 0}
		for w := rapid.IntRange(1, 3).Draw(t, "roundWrites"); w > 0; w-- {
			wr := [3]int{rapid.IntRange(0, n).Draw(t, "roundPos"), val("roundVal"), 0}
			if rapid.Bool().Draw(t, "roundSide") {
				rd.L = append(rd.L, wr)
			} else {
				rd.R = append(rd.R, wr)
			}
		}
		c.Rounds = []EditRound{rd}
	}
	return c
}

func TestC11Big(t *testing.T) {
	h := vk.Start(t, "C11", "big")
	vk.Rapid(h, t, genBigEdit, runC11)
}

func TestC11Exhaustive(t *testing.T) {
	h := vk.Start(t, "C11", "exh")
	e := newExh(h, t, c11Names, checkEdit)
	for _, sp := range pairSpaces(h, false) {
		h.Note("exhaustive: %s; element kinds dealt by case index, half int (the digits 2v, 2v+1 are two identities of the value v for the kinds that have them)", sp)
		for s := 0; s < sp.levels(); s++ {
			n, dec := sp.level(s)
			if !e.level(n, func(i int) (EditCase, bool) {
				a, b, ok := dec(i)
				c := EditCase{}
				c.Elem, c.Lhs, c.Rhs, c.LID, c.RID, c.Share = exhPairElem(i+s*7919, kindsComparable, true, a, b)
				c.Poison = exhPoison(i+s*7919, poisonLCS)
				return c, ok
			}) {
				break
			}
		}
	}
	// zero-size element types: a sequence is its length
	const flatMax = 40
	h.Note("zero-size element types (struct{}, [0]int): every pair of lengths <= %d; one case in 32 of this leg (by a hash of its index) is preceded or followed by a call whose element comparison panics and is recovered", flatMax)
	e.level((flatMax+1)*(flatMax+1)*len(zeroKindsCmp), func(i int) (EditCase, bool) {
		j := i / len(zeroKindsCmp)
		return EditCase{Elem: zeroKindsCmp[i%len(zeroKindsCmp)], Lhs: zeros(j / (flatMax + 1)), Rhs: zeros(j % (flatMax + 1)), Poison: exhPoison(i, poisonLCS)}, true
	})
	e.finish(true)
}

// TestC11Alias: lhs and rhs are two views of ONE backing array (a slice
// against its own prefix, suffix, or any other window): every buffer over
// {0,1,2} up to a length bound x every ordered pair of windows.  Element
// kinds are dealt by case index as in the exh leg.
func TestC11Alias(t *testing.T) {
	h := vk.Start(t, "C11", "alias")
	e := newExh(h, t, c11Names, checkEdit)
	maxLen := h.Pick(6, 8)
	for l := 1; l <= maxLen; l++ {
		nbuf := 1
		for i := 0; i < l; i++ {
			nbuf *= 3
		}
		var views [][2]int
		for i := 0; i <= l; i++ {
			for j := i; j <= l; j++ {
				views = append(views, [2]int{i, j})
			}
		}
		nv := len(views)
		if !e.level(nbuf*nv*nv, func(idx int) (EditCase, bool) {
			b, lv, rv := idx/(nv*nv), views[idx/nv%nv], views[idx%nv]
			if lv[1] != l && rv[1] != l { // some view must reach the end: shorter buffers were covered at a smaller l
				return EditCase{}, false
			}
			buf := make([]int, l)
			for i := range buf {
				buf[i] = b % 3
				b /= 3
			}
			c := EditCase{LV: lv, RV: rv}
			c.Elem, c.Buf, _, c.BID, _, c.Share = exhPairElem(idx+l*7919, kindsComparable, true, buf, nil)
			return c, true
		}) {
			break
		}
	}
	e.finish(true)
}

// ---------------------------------------------------------------------------
// C12: LCS.

func genLCSCase(t *rapid.T) LCSCase {
	c := genLCSCase0(t)
	// (drawn last, so that the cases come out as they always did)
	if !c.Tol {
		kinds := zeroKindsCmp
		if c.Fold {
			kinds = zeroKinds
		}
		if zk := genZeroKind(t, 16, kinds); zk != "" {
			c.Elem, c.Share = zk, false
		}
	}
	c.Poison = genPoison(t, 6, poisonLCS)
	return c
}

func genLCSCase0(t *rapid.T) LCSCase {
	if vk.Rare(t, "tolerance", 12) {
		// values a step of 1 or 2 apart, with adjacent related pairs: |a-b| <= 1 is not transitive
		n, m := rapid.IntRange(0, 12).Draw(t, "tolN"), rapid.IntRange(0, 12).Draw(t, "tolM")
		return LCSCase{Tol: true,
			As: rapid.SliceOfN(rapid.IntRange(0, 9), n, n).Draw(t, "tolAs"),
			Bs: rapid.SliceOfN(rapid.IntRange(0, 9), m, m).Draw(t, "tolBs")}
	}
	c := genLCSInts(t)
	if c.Fold {
		c.Elem = genElem(t, kindsLCSFunc)
	} else {
		c.Elem = genElem(t, kindsComparable)
	}
	if !hasTwins(c.Elem) {
		return c
	}
	c.Share = c.Elem == kindWords && rapid.Bool().Draw(t, "share")
	switch {
	case c.Lay == 4:
		c.AID = genIDs(t, "a", len(c.As), c.Elem == elem.F64 || rapid.Bool().Draw(t, "idDense"))
	case c.Lay == 5:
		c.BID = genIDs(t, "b", len(c.Bs), c.Elem == elem.F64 || rapid.Bool().Draw(t, "idDense"))
	case c.Fold: // the identities do not take part in the folding equality
		c.AID, c.BID = genIDs(t, "a", len(c.As), true), genIDs(t, "b", len(c.Bs), true)
	default:
		c.As, c.Bs, c.AID, c.BID = genPairIDs(t, c.Elem, c.As, c.Bs)
	}
	return c
}

// genLCSInts draws the values of a case.
func genLCSInts(t *rapid.T) LCSCase {
	if rapid.IntRange(0, 3).Draw(t, "blockShape") == 0 {
		a, b := genBlockPair(t)
		if rapid.Bool().Draw(t, "blockSwap") {
			a, b = b, a
		}
		return LCSCase{As: a, Bs: b, Lay: rapid.SampledFrom([]int{0, 1, 2, 3}).Draw(t, "layout")}
	}
	var a, b []int
	var c LCSCase
	if rapid.IntRange(0, 5).Draw(t, "roundShape") == 0 {
		// lengths at round numbers (the windows of Lay 4 / 5 would change them)
		a, b = genRoundPair(t)
		c = LCSCase{As: a, Bs: b, Lay: rapid.SampledFrom([]int{0, 0, 1, 2, 3}).Draw(t, "layout")}
	} else {
		k := rapid.IntRange(1, 5).Draw(t, "alphabet")
		maxLen := rapid.SampledFrom([]int{12, 60, 200, 200}).Draw(t, "maxLen")
		a, b = genPair(t, k, maxLen)
		c = LCSCase{As: a, Bs: b, Lay: rapid.SampledFrom([]int{0, 0, 1, 2, 3, 4, 5}).Draw(t, "layout")}
	}
	if c.Lay >= 4 {
		// one argument is a window of the other's memory; windows starting at
		// the first element and windows ending at the last one are favoured
		n := len(a)
		if c.Lay == 5 {
			n = len(b)
		}
		lo := rapid.SampledFrom([]int{0, 0, 0, 1, 2, n / 2}).Draw(t, "winLo")
		hi := n - rapid.SampledFrom([]int{0, 0, 1, 1, 2, n / 2}).Draw(t, "winCut")
		c.Win = [2]int{lo, hi}
	}
	if rapid.IntRange(0, 2).Draw(t, "fold") == 0 {
		// element = 2*letter + case bit
		c.Fold = true
		bits := rapid.SliceOfN(rapid.IntRange(0, 1), len(a)+len(b), len(a)+len(b)).Draw(t, "caseBits")
		c.As, c.Bs = make([]int, len(a)), make([]int, len(b))
		for i, v := range a {
			c.As[i] = 2*v + bits[i]
		}
		for i, v := range b {
			c.Bs[i] = 2*v + bits[len(a)+i]
		}
	}
	return c
}

func TestC12LCSRand(t *testing.T) {
	h := vk.Start(t, "C12", "lcsrand")
	vk.Rapid(h, t, genLCSCase, runC12LCS)
}

func TestC12LCSExhaustive(t *testing.T) {
	h := vk.Start(t, "C12", "lcsexh")
	e := newExh(h, t, c12LCSNames, checkLCS)
	for _, sp := range pairSpaces(h, true) {
		h.Note("exhaustive, each pair with == and (elements read as 2*letter+case) with the folding equality: %s; element kinds dealt by case index, half int", sp)
		for s := 0; s < sp.levels(); s++ {
			n, dec := sp.level(s)
			if !e.level(2*n, func(i int) (LCSCase, bool) {
				a, b, ok := dec(i / 2)
				c := LCSCase{As: a, Bs: b, Fold: i%2 == 1, Lay: (i / 2) % 4}
				if c.Lay == 0 && ok {
					// where one sequence is a prefix or suffix of the other, pass it
					// as that very window of the other's memory
					switch {
					case len(b) <= len(a) && slices.Equal(a[:len(b)], b):
						c.Lay, c.Win = 4, [2]int{0, len(b)}
					case len(a) <= len(b) && slices.Equal(b[:len(a)], a):
						c.Lay, c.Win = 5, [2]int{0, len(a)}
					case len(b) <= len(a) && slices.Equal(a[len(a)-len(b):], b):
						c.Lay, c.Win = 4, [2]int{len(a) - len(b), len(a)}
					case len(a) <= len(b) && slices.Equal(b[len(b)-len(a):], a):
						c.Lay, c.Win = 5, [2]int{len(b) - len(a), len(b)}
					}
				}
				// the element kind, by case index; under the folding equality the
				// digits keep their meaning 2*letter+case
				if c.Fold {
					c.Elem, _, _, c.AID, c.BID, c.Share = exhPairElem(i+s*7919, kindsLCSFunc, false, a, b)
				} else {
					c.Elem, c.As, c.Bs, c.AID, c.BID, c.Share = exhPairElem(i+s*7919, kindsComparable, true, a, b)
				}
				c.Poison = exhPoison(i+s*7919, poisonLCS)
				return c, ok
			}) {
				break
			}
		}
	}
	// zero-size element types: a sequence is its length
	const flatMax = 30
	h.Note("zero-size element types (struct{}, [0]int, and [0]func() for LCSFunc): every pair of lengths <= %d with LCS and with LCSFunc, layouts cycling; one case in 32 of this leg (by a hash of its index) is preceded or followed by a call whose element comparison panics and is recovered", flatMax)
	e.level((flatMax+1)*(flatMax+1)*len(zeroKinds)*2, func(i int) (LCSCase, bool) {
		j := i / (2 * len(zeroKinds))
		c := LCSCase{Elem: zeroKinds[i/2%len(zeroKinds)], Fold: i%2 == 1, As: zeros(j / (flatMax + 1)), Bs: zeros(j % (flatMax + 1)), Lay: j % 4, Poison: exhPoison(i, poisonLCS)}
		return c, c.Fold || c.Elem != kindZfn
	})
	e.finish(true)
}

// ---------------------------------------------------------------------------
// C12: LIS / LNDS.

var cmpKinds = []string{"nat", "rev", "half"}

// cmpKindsRand adds comparisons that return magnitudes / extreme values.
var cmpKindsRand = []string{"nat", "rev", "half", "extreme", "diff"}

func genSeqCase(t *rapid.T) SeqCase { return genSeqElem(t, genSeqInts(t), false) }

// genSeqElem draws the element kind of a case: an ordered one for the natural
// order, any for the comparison functions; i16 only where the values fit (big:
// never).  f64 gets negative zeros at a few positions (preferably where the
// value is 0) and, in the natural order, sometimes NaNs.
func genSeqElem(t *rapid.T, c SeqCase, big bool) SeqCase {
	c = genSeqElem0(t, c, big)
	// (drawn last, so that the cases come out as they always did)
	if zk := genZeroKind(t, 16, zeroKinds); zk != "" && c.Cmp != "nat" && c.Cmp != "" {
		c.Elem, c.Neg, c.NaN = zk, nil, nil
	}
	c.Poison = genPoison(t, 8, poisonLIS)
	return c
}

func genSeqElem0(t *rapid.T, c SeqCase, big bool) SeqCase {
	nat := c.Cmp == "nat" || c.Cmp == ""
	kinds := kindsAny
	if nat {
		kinds = kindsOrdered
	}
	c.Elem = genElem(t, kinds)
	if c.Elem == elem.I16 && (big || len(c.Vs) > 0 && (slices.Min(c.Vs) < math.MinInt16 || slices.Max(c.Vs) > math.MaxInt16)) {
		c.Elem = "" // (values that fit before Wide stretches them fit afterwards)
	}
	if c.Elem != elem.F64 {
		return c
	}
	var zeros []int
	for i, v := range c.Vs {
		if v == 0 {
			zeros = append(zeros, i)
		}
	}
	for _, p := range rapid.SliceOfN(rapid.IntRange(0, 1023), 0, 4).Draw(t, "negPos") {
		if len(zeros) > 0 {
			p = zeros[p%len(zeros)]
		}
		c.Neg = append(c.Neg, p)
	}
	if nat && rapid.Bool().Draw(t, "withNaN") {
		c.NaN = rapid.SliceOfN(rapid.IntRange(0, 1023), 1, 3).Draw(t, "nanPos")
	}
	return c
}

// genSeqInts draws the values of a case.
func genSeqInts(t *rapid.T) SeqCase {
	c := SeqCase{Cmp: rapid.SampledFrom(cmpKindsRand).Draw(t, "cmp"), Wide: rapid.IntRange(0, 3).Draw(t, "wide") == 0}
	k := rapid.SampledFrom([]int{3, 2, 4, 6, 1, 5}).Draw(t, "values")
	if c.Cmp == "half" {
		k *= 2
	}
	maxLen := rapid.SampledFrom([]int{12, 50, 200, 200}).Draw(t, "maxLen")
	n := genLen(t, "vs", maxLen)
	switch rapid.IntRange(0, 7).Draw(t, "shape") {
	case 7: // a non-decreasing run of exactly 2^k (sometimes +-1) elements - the optimum at that
		// moment -, then an element strictly below everything so far, then a run that builds on
		// the new minimum and (mostly) outgrows the first run, so that the answer goes through it
		p := rapid.SampledFrom([]int{64, 32, 128, 64, 256}).Draw(t, "p2")
		if vk.Rare(t, "p2Large", 30) {
			p = rapid.SampledFrom([]int{512, 1024}).Draw(t, "p2L")
		}
		p += rapid.SampledFrom([]int{0, 0, 0, 0, -1, 1}).Draw(t, "p2Off")
		v := 1000
		for i := 0; i < p; i++ {
			c.Vs = append(c.Vs, v)
			v += rapid.SampledFrom([]int{1, 1, 0, 2}).Draw(t, "p2Inc")
		}
		lo := 1000 - rapid.IntRange(1, 40).Draw(t, "p2Below")
		l2 := p + rapid.IntRange(0, 12).Draw(t, "p2More")
		if rapid.IntRange(0, 3).Draw(t, "p2Short") == 0 {
			l2 = rapid.IntRange(1, p).Draw(t, "p2Len")
		}
		step2 := rapid.SampledFrom([]int{1, 1, 0, 2, 9}).Draw(t, "p2Step")
		for i := 0; i < l2; i++ {
			c.Vs = append(c.Vs, lo+i*step2)
		}
		for i, more := 0, rapid.IntRange(0, 20).Draw(t, "p2Tail"); i < more; i++ { // and onwards
			c.Vs = append(c.Vs, max(v, lo+l2*step2)+i)
		}
		for i, x := range c.Vs {
			switch c.Cmp {
			case "rev":
				c.Vs[i] = 16000 - x // the same shape in the reversed order
			case "half":
				c.Vs[i] = 2 * x // distinct under v>>1 as well
			}
		}
	case 6: // ascending runs at different scales: a coarse run, then denser runs that restart
		// at (or next to) a value of an earlier run and overwrite the tails built so far
		dir := 1
		if rapid.Bool().Draw(t, "msDesc") {
			dir = -1
		}
		start, step := 1000, rapid.SampledFrom([]int{5, 10, 16}).Draw(t, "msStep")
		for r, nr := 0, rapid.IntRange(2, 3).Draw(t, "msRuns"); r < nr; r++ {
			l := rapid.IntRange(20, 90).Draw(t, "msLen")
			for i := 0; i < l; i++ {
				c.Vs = append(c.Vs, start+dir*i*step)
			}
			start = c.Vs[rapid.IntRange(0, len(c.Vs)-1).Draw(t, "msFrom")] + rapid.SampledFrom([]int{0, 0, 0, 1, -1}).Draw(t, "msDelta")
			step = rapid.SampledFrom([]int{1, 1, 2}).Draw(t, "msStep2")
		}
		if c.Cmp == "half" {
			for i := range c.Vs {
				c.Vs[i] *= 2
			}
		}
	case 5: // nearly sorted over MANY distinct values: long optimal subsequences (>= 34, >= 64)
		// with exact repeats of earlier elements, local swaps and outliers
		m := rapid.SampledFrom([]int{40, 70, 130, 300}).Draw(t, "nsLen")
		step := rapid.IntRange(1, 3).Draw(t, "nsStep")
		desc := rapid.Bool().Draw(t, "nsDesc")
		for i := 0; i < m; i++ {
			v := 10 + i*step
			if desc {
				v = 10 + (m-i)*step
			}
			c.Vs = append(c.Vs, v)
		}
		for j := rapid.IntRange(1, 12).Draw(t, "nsMut"); j > 0; j-- {
			i := rapid.IntRange(1, len(c.Vs)-1).Draw(t, "nsPos")
			switch rapid.IntRange(0, 3).Draw(t, "nsKind") {
			case 0, 1: // an exact repeat of the element b places back, inserted here
				b := rapid.IntRange(1, min(i, 70)).Draw(t, "nsBack")
				c.Vs = append(c.Vs[:i], append([]int{c.Vs[i-b]}, c.Vs[i:]...)...)
			case 2: // swap neighbours
				c.Vs[i-1], c.Vs[i] = c.Vs[i], c.Vs[i-1]
			default: // outlier
				c.Vs[i] = rapid.IntRange(0, 10+m*step).Draw(t, "nsOut")
			}
		}
		if c.Cmp == "half" {
			for i := range c.Vs {
				c.Vs[i] *= 2 // distinct under v>>1 as well
			}
		}
	case 0: // uniform over few values
		c.Vs = rapid.SliceOfN(rapid.IntRange(0, k-1), n, n).Draw(t, "uniform")
	case 1: // runs of equals
		c.Vs = genRuns(t, "runs", k, n, 9)
	case 2, 3: // plateaus in ascending or descending order (cyclically), then noise
		asc := rapid.Bool().Draw(t, "asc")
		v := rapid.IntRange(0, k-1).Draw(t, "start")
		for len(c.Vs) < n {
			l := rapid.IntRange(1, 9).Draw(t, "plateau")
			for ; l > 0 && len(c.Vs) < n; l-- {
				c.Vs = append(c.Vs, v)
			}
			if asc {
				v = (v + 1) % k
			} else {
				v = (v + k - 1) % k
			}
		}
		c.Vs = mutate(t, "noise", c.Vs, k, maxLen)
	default: // anything, with a wider value range
		n = min(n, 40)
		c.Vs = rapid.SliceOfN(rapid.IntRange(-3, 12), n, n).Draw(t, "wide")
		if c.Cmp == "half" {
			for i := range c.Vs {
				c.Vs[i] += 4 // keep v>>1 well-behaved (non-negative)
			}
		}
	}
	return c
}

func TestC12LISRand(t *testing.T) {
	h := vk.Start(t, "C12", "lisrand")
	vk.Rapid(h, t, genSeqCase, runC12Seq)
}

// genBigSeq builds inputs of tens of thousands of elements out of a few
// arithmetic runs, so that the optimum itself has more than 2^15 / 2^16
// elements (index arithmetic in the tails table) and later runs land below
// the current best tail (the binary-search path).
func genBigSeq(t *rapid.T) SeqCase {
	c := SeqCase{Cmp: rapid.SampledFrom([]string{"nat", "nat", "rev", "half", "extreme"}).Draw(t, "cmp")}
	edge := func(label string) int {
		base := rapid.SampledFrom([]int{1 << 15, 1 << 16, 1 << 16, 1 << 17, 40000, 50000, 70000, 100000}).Draw(t, label)
		return base + rapid.IntRange(-3, 40).Draw(t, label+"Off")
	}
	dir := rapid.SampledFrom([]int{1, 1, 1, -1}).Draw(t, "dir")
	if c.Cmp == "rev" {
		dir = -dir
	}
	scale := 1
	if c.Cmp == "half" {
		scale = 2
	}
	total := 0
	lo, hi := 0, 0
	add := func(start, step, n int) {
		c.Segs = append(c.Segs, [3]int{start * scale, step * scale, n})
		end := start + step*(n-1)
		if total == 0 {
			lo, hi = min(start, end), max(start, end)
		} else {
			lo, hi = min(lo, start, end), max(hi, start, end)
		}
		total += n
	}
	add(0, dir*rapid.SampledFrom([]int{1, 2, 2, 3}).Draw(t, "step0"), edge("len0"))
	for k := rapid.IntRange(0, 3).Draw(t, "more"); k > 0 && total < 260000; k-- {
		start := rapid.IntRange(lo-2, hi+2).Draw(t, "start")
		step := dir * rapid.SampledFrom([]int{0, 1, 1, 2, -1}).Draw(t, "step")
		var n int
		switch rapid.IntRange(0, 3).Draw(t, "lenKind") {
		case 0:
			n = rapid.IntRange(1, 50).Draw(t, "short")
		case 1:
			n = rapid.IntRange(1000, 30000).Draw(t, "mid")
		default:
			n = edge("len")
		}
		add(start, step, min(n, 280000-total))
	}
	return genSeqElem(t, c, true)
}

// TestC12Conc: concurrent LIS/LNDS calls on private inputs (see ConcSeqCase).
func TestC12Conc(t *testing.T) {
	h := vk.Start(t, "C12", "conc")
	slot := h.Slot()
	tl := vk.NewTally()
	rng := h.RNG("conc")
	rounds := h.Pick(6, 120)
	for r := 0; r < rounds && !h.Failed(); r++ {
		c := ConcSeqCase{N: []int{1024, 1500, 3000, 200, 5000, 64}[r%6], Iters: h.Pick(40, 100)}
		for g := 0; g < 8; g++ {
			c.Seeds = append(c.Seeds, rng.Uint64())
		}
		o := &vk.Obs{}
		slot.Enter(c)
		msg := vk.Guard(func() string { return runConcSeq(c, o) })
		slot.Leave()
		if msg != "" {
			p := h.Fail(c, msg)
			t.Fatalf("VK-VIOLATION property=C12 leg=conc replay=%s\n%s", p, msg)
		}
		tl.AddObs(o)
		if r < 2 {
			h.Sample(c, o.NT)
		}
	}
	h.MergeTally(tl)
}

func TestC12LISBig(t *testing.T) {
	h := vk.Start(t, "C12", "lisbig")
	vk.Rapid(h, t, genBigSeq, runC12Seq)
}

func TestC12LISExhaustive(t *testing.T) {
	h := vk.Start(t, "C12", "lisexh")
	e := newExh(h, t, c12SeqNames, checkSeq)
	type scope struct{ k, maxLen int }
	scopes := []scope{{2, 13}, {3, 10}, {4, 8}}
	if h.Thorough() {
		scopes = []scope{{2, 18}, {3, 13}, {4, 10}, {5, 8}}
	}
	// A sequence over {0..k-1} that does not use k-1 belongs to the scope of
	// the next smaller alphabet when that scope reaches its length.
	covered := func(vs []int, k int) bool {
		top := 0
		for _, v := range vs {
			top = max(top, v)
		}
		for _, sc := range scopes {
			if sc.k < k && top < sc.k && len(vs) <= sc.maxLen {
				return true
			}
		}
		return false
	}
	for _, sc := range scopes {
		h.Note("exhaustive: all sequences over {0..%d} up to length %d, each with the natural, the reversed and the v>>1 comparison (sequences already in a smaller-alphabet scope are skipped); element kinds dealt by case index, half int", sc.k-1, sc.maxLen)
	}
	maxLen := 0
	for _, sc := range scopes {
		maxLen = max(maxLen, sc.maxLen)
	}
	for l := 0; l <= maxLen; l++ {
		for _, sc := range scopes {
			if l > sc.maxLen {
				continue
			}
			n := ipow(sc.k, l)
			if !e.level(3*n, func(i int) (SeqCase, bool) {
				vs := digits(i/3, sc.k, l)
				if covered(vs, sc.k) {
					return SeqCase{}, false
				}
				c := SeqCase{Vs: vs, Cmp: cmpKinds[i%3]}
				// the element kind, by case index; f64 with negative zeros and (natural
				// order, every other case) one or two NaNs at positions from the hash
				kinds := kindsAny
				if i%3 == 0 {
					kinds = kindsOrdered
				}
				var hh uint64
				c.Elem, hh = cycleKind(i+l*7919, kinds)
				if c.Elem == elem.F64 && l > 0 {
					for p := 0; p < l; p++ {
						if hh>>uint(p)&1 == 1 {
							c.Neg = append(c.Neg, p)
						}
					}
					if i%3 == 0 && hh>>30&1 == 1 {
						c.NaN = []int{int(hh >> 32 % uint64(l))}
						if hh>>31&1 == 1 {
							c.NaN = append(c.NaN, int(hh>>40%uint64(l)))
						}
					}
				}
				c.Poison = exhPoison(i+l*7919, poisonLIS)
				return c, true
			}) {
				break
			}
		}
	}
	// zero-size element types: the input is its length (all elements equivalent)
	const flatMax = 300
	h.Note("zero-size element types (struct{}, [0]int, [0]func()) with LISFunc / LNDSFunc: every length <= %d with the reversed and the v>>1 comparison; one case in 32 of this leg (by a hash of its index) is preceded or followed by a call whose comparison panics and is recovered", flatMax)
	e.level((flatMax+1)*len(zeroKinds)*2, func(i int) (SeqCase, bool) {
		return SeqCase{Elem: zeroKinds[i/2%len(zeroKinds)], Cmp: cmpKinds[1+i%2], Vs: zeros(i / (2 * len(zeroKinds))), Poison: exhPoison(i, poisonLIS)}, true
	})
	e.finish(true)
}

// ---------------------------------------------------------------------------
// C17.

// genMegaRotate draws a Rotate of an int slice of a million elements and
// more: alone (lengths around 2^20, 2^21, 2^22), or - package-level state
// that packs or truncates its key - directly after a Rotate of a small slice
// of m elements with gcd(k, m) > 1, the long slice having 2^21+m or 2^22+m
// elements and being rotated by the same k or the one next to it.
func genMegaRotate(t *rapid.T) UtilCase {
	c := UtilCase{Fn: "Rotate", Mega: true, Spare: rapid.SampledFrom([]int{0, 0, 1, 3}).Draw(t, "megaSpare")}
	if rapid.IntRange(0, 3).Draw(t, "megaAlone") == 0 {
		c.N = rapid.SampledFrom([]int{1 << 20, 1<<20 + 1, 1<<21 + 6, 1<<20 - 1, 1 << 22}).Draw(t, "megaN")
		n := c.N
		c.K = rapid.SampledFrom([]int{
			rapid.IntRange(1, 1000).Draw(t, "megaSmallK"), -rapid.IntRange(1, 1000).Draw(t, "megaSmallLeft"),
			n / 2, n/2 + 1, n - 1, n, -n, n + 1, 1 << 19, rapid.IntRange(-n, n).Draw(t, "megaAnyK")}).Draw(t, "megaK")
		return c
	}
	a := rapid.SampledFrom([]int{3, 5, 7, 9, 11, 15}).Draw(t, "megaA")
	b := rapid.IntRange(2, 9).Draw(t, "megaB")
	cc := min(rapid.SampledFrom([]int{1, 1, 3, 2, 5}).Draw(t, "megaC"), b-1)
	m, k := a*b, a*cc
	c.Before = &UtilCase{Fn: "Rotate", N: m, K: k}
	c.N = rapid.SampledFrom([]int{1 << 21, 1 << 21, 1 << 21, 1 << 22}).Draw(t, "megaBase") + m
	c.K = k + rapid.SampledFrom([]int{0, 0, 0, -1, 1}).Draw(t, "megaKOff")
	if rapid.IntRange(0, 7).Draw(t, "megaLeft") == 0 {
		c.K = -c.K
	}
	return c
}

// megaEvery: one case in megaEvery of the rand leg is a mega Rotate (each
// costs as much as some hundred ordinary cases).
var megaEvery = 4000

func genUtilCase(t *rapid.T) UtilCase {
	if vk.Rare(t, "mega", megaEvery) {
		return genMegaRotate(t)
	}
	c := UtilCase{Fn: rapid.SampledFrom([]string{
		"Partition", "Partition", "Rotate", "Rotate", "Rotate", "Chunks", "Chunks", "Batches", "Batches",
		"Head", "Tail", "Stripe", "At", "PtrAt"}).Draw(t, "fn")}
	if rapid.Bool().Draw(t, "elemOther") {
		c.Elem = rapid.SampledFrom(kindsUtil).Draw(t, "elem")
		if c.Elem == kindB8 && c.Fn == "Stripe" {
			c.Elem = elem.I16
		}
	}
	maxN := 300
	if c.Elem == kindB8 {
		maxN = b8MaxN // as many distinct elements as a byte has room for
	}
	c.N = rapid.OneOf(rapid.IntRange(0, 20), rapid.IntRange(15, maxN)).Draw(t, "n")
	c.Spare = rapid.SampledFrom([]int{0, 0, 1, 3, 7}).Draw(t, "spare")
	n := c.N
	// around draws an argument at or next to one of the given points, or
	// anywhere in [lo, hi].
	around := func(lo, hi int, pts ...int) int {
		if rapid.IntRange(0, 11).Draw(t, "extreme") == 0 {
			// arguments at the ends of the int range (index arithmetic must not overflow)
			d := rapid.IntRange(0, n+3).Draw(t, "extremeOff")
			if lo < 0 && rapid.Bool().Draw(t, "extremeNeg") {
				return math.MinInt + d
			}
			return math.MaxInt - d
		}
		if rapid.IntRange(0, 2).Draw(t, "argKind") == 0 {
			return rapid.SampledFrom(pts).Draw(t, "argPoint") + rapid.IntRange(-1, 1).Draw(t, "argOff")
		}
		return rapid.IntRange(lo, hi).Draw(t, "arg")
	}
	switch c.Fn {
	case "Partition":
		if n > 120 {
			c.N = n % 120
		}
		switch rapid.IntRange(0, 3).Draw(t, "keepShape") {
		case 0:
			c.Keep = rapid.SliceOfN(rapid.IntRange(0, 1), c.N, c.N).Draw(t, "keep")
		case 1: // runs of kept / dropped elements
			c.Keep = genRuns(t, "keep", 2, c.N, 12)
		case 2: // mostly kept with a few drops, or the reverse
			c.Keep = make([]int, c.N)
			base := rapid.IntRange(0, 1).Draw(t, "mostly")
			for i := range c.Keep {
				c.Keep[i] = base
			}
			for _, p := range rapid.SliceOfN(rapid.IntRange(0, 400), 0, 4).Draw(t, "flips") {
				if c.N > 0 {
					c.Keep[p%c.N] = 1 - base
				}
			}
		default: // kept prefix, dropped suffix (already partitioned) or the reverse
			c.Keep = make([]int, c.N)
			cut := rapid.IntRange(0, c.N).Draw(t, "cut")
			first := rapid.IntRange(0, 1).Draw(t, "first")
			for i := range c.Keep {
				if i < cut {
					c.Keep[i] = first
				} else {
					c.Keep[i] = 1 - first
				}
			}
		}
		if hasTwins(c.Elem) && c.N > 0 {
			// equal-looking elements: a few, all, or about half of the positions
			switch rapid.IntRange(0, 3).Draw(t, "dupShape") {
			case 0:
			case 1:
				c.Dup = rapid.SliceOfN(rapid.IntRange(0, c.N-1), 1, 8).Draw(t, "dupFew")
			case 2:
				for i := 0; i < c.N; i++ {
					c.Dup = append(c.Dup, i)
				}
			default:
				for i, b := range rapid.SliceOfN(rapid.IntRange(0, 1), c.N, c.N).Draw(t, "dupBits") {
					if b == 1 {
						c.Dup = append(c.Dup, i)
					}
				}
			}
		}
	case "Rotate":
		if rapid.IntRange(0, 2).Draw(t, "composite") == 0 {
			// by construction gcd(k, n) > 1: n = a*b, k = +-a*c
			a := rapid.IntRange(2, 12).Draw(t, "a")
			b := rapid.IntRange(2, maxN/12).Draw(t, "b")
			cc := rapid.IntRange(1, b-1).Draw(t, "c")
			c.N, c.K = a*b, a*cc
			if rapid.Bool().Draw(t, "left") {
				c.K = -c.K
			}
		} else {
			c.K = around(-n-2, n+2, -n, 0, n)
		}
		if rapid.IntRange(0, 3).Draw(t, "before") == 0 {
			// directly after a Rotate of another slice by the same k: as long, a
			// divisor or a multiple of the length, or any length
			bn := rapid.SampledFrom([]int{c.N, c.N / 2, 2 * c.N, c.N + 1, rapid.IntRange(0, maxN).Draw(t, "beforeAnyN")}).Draw(t, "beforeN")
			c.Before = &UtilCase{Fn: "Rotate", N: bn, K: c.K, Elem: c.Elem}
			if rapid.IntRange(0, 3).Draw(t, "beforeOtherElem") == 0 {
				c.Before.Elem = ""
			}
		}
	case "Chunks", "Batches":
		c.K = around(-1, n+3, 0, n, n/2, n/3)
	case "Head", "Tail":
		c.K = around(0, n+2, 1, n)
		if c.K < 0 {
			c.K = 0
		}
	case "At", "PtrAt":
		c.K = around(-n-2, n+2, -n, 0, n)
	case "Stripe":
		c.N, c.Spare = 0, 0
		c.Rows = rapid.SliceOfN(rapid.IntRange(0, 12), 0, 12).Draw(t, "rows")
		c.K = rapid.IntRange(0, 13).Draw(t, "i")
	}
	// (drawn last, so that the cases above come out as they always did)
	if vk.Rare(t, "zeroSize", 10) {
		genZeroUtil(t, &c)
	}
	return c
}

// genZeroUtil turns the case into a call on a slice of zero-size elements;
// where the function does not walk over the elements, half of the slices get
// a length near 2^31, 2^32, 2^62, MaxInt/2 or MaxInt, with the argument
// redrawn relative to it.
func genZeroUtil(t *rapid.T, c *UtilCase) {
	c.Elem = rapid.SampledFrom(zeroKinds).Draw(t, "zeroKind")
	c.Dup, c.Before = nil, nil
	if c.Fn == "Partition" {
		c.Keep = []int{rapid.IntRange(0, 1).Draw(t, "zeroKeep")}
	}
	switch c.Fn {
	case "Chunks", "Batches", "Head", "Tail", "At", "PtrAt":
	default:
		return
	}
	if !rapid.Bool().Draw(t, "zeroHuge") {
		return
	}
	l := rapid.SampledFrom([]int{math.MaxInt, math.MaxInt, 1 << 62, math.MaxInt/2 + 1, 3 << 61, 1 << 32, 1 << 31, 1 << 53}).Draw(t, "hugeLen")
	if d := rapid.IntRange(-70, 70).Draw(t, "hugeLenOff"); d <= 0 || l <= math.MaxInt-d {
		l += d
	}
	c.N = l
	off := rapid.IntRange(-2, 2).Draw(t, "hugeArgOff")
	switch c.Fn {
	case "Batches":
		c.K = rapid.SampledFrom([]int{2, 3, 7, 64, 1, rapid.IntRange(0, 4096).Draw(t, "hugeBatches")}).Draw(t, "hugeK")
	case "Chunks":
		// few chunks: a divisor-like size, or the sizes around MaxInt-len
		d := rapid.SampledFrom([]int{2, 3, 1, 7, 64, rapid.IntRange(1, 4096).Draw(t, "hugeDiv")}).Draw(t, "hugeChunksDiv")
		c.K = rapid.SampledFrom([]int{l/d + off, l/d + 1, math.MaxInt - l + 1 + off, 0, l - 1}).Draw(t, "hugeK")
	case "Head", "Tail":
		c.K = rapid.SampledFrom([]int{l + off, l/2 + off, 1 + off, math.MaxInt, math.MaxInt - 1}).Draw(t, "hugeK")
	default:
		c.K = rapid.SampledFrom([]int{l + off, -l + off, l/2 + off, -l/2 + off, off, math.MaxInt, math.MinInt, math.MinInt + 1}).Draw(t, "hugeK")
	}
	if (c.Fn == "Head" || c.Fn == "Tail") && c.K < 0 {
		c.K = 0 // (an argument that wrapped)
	}
}

func TestC17Rand(t *testing.T) {
	h := vk.Start(t, "C17", "rand")
	megaEvery = h.Pick(4000, 20000)
	h.Note("about one case in %d is a Rotate of an int slice of 2^20-1 .. 2^22+135 elements, three in four of them directly after a Rotate of a small slice by the same k", megaEvery)
	vk.Rapid(h, t, genUtilCase, runC17)
}

// TestC17RotBig: Rotate of long int slices by EVERY small shift in either
// direction (|k| <= 70), every shift within 70 of the length, powers of two
// and their neighbours, and around len/2 - the region where a bulk-copy or
// block-swap path for long slices and short shifts would live, which the
// random leg visits a few times per run only.  Lengths around 2^12, 2^16, 2^17
// (thorough: and 2^20, 2^22), a round one and an odd one.
func TestC17RotBig(t *testing.T) {
	h := vk.Start(t, "C17", "rotbig")
	slot := h.Slot()
	tl := vk.NewTally()
	rng := h.RNG("rotbig")
	sizes := []int{4096, 1<<16 - 1, 1 << 16, 1<<16 + 1, 100000, 1 << 17, 1<<17 + 3}
	if h.Pick(0, 1) == 1 {
		sizes = append(sizes, 1<<20, 1<<20+1, 1<<22)
	}
	sizes = append(sizes, 1<<16+2+rng.Intn(1<<16))
	i := 0
	for _, n := range sizes {
		ks := map[int]bool{}
		for k := -70; k <= 70; k++ {
			ks[k], ks[n-k], ks[k-n] = true, true, true
		}
		for t := 64; t <= n; t *= 2 {
			for d := -1; d <= 1; d++ {
				ks[t+d], ks[-t+d], ks[n-t+d], ks[t-n+d] = true, true, true, true
			}
		}
		for d := -2; d <= 2; d++ {
			ks[n/2+d], ks[-n/2+d], ks[n/3+d] = true, true, true
		}
		ks[rng.Intn(n)], ks[-rng.Intn(n)] = true, true
		for k := range ks {
			if k < -n-1 || k > n+1 {
				delete(ks, k)
			}
		}
		keys := make([]int, 0, len(ks))
		for k := range ks {
			keys = append(keys, k)
		}
		sort.Ints(keys)
		for _, k := range keys {
			if h.Failed() {
				break
			}
			c := UtilCase{Fn: "Rotate", Mega: true, N: n, K: k, Spare: i % 3}
			slot.Enter(c)
			o := &vk.Obs{}
			msg := vk.Guard(func() string { return runC17(c, o) })
			slot.Leave()
			if msg != "" {
				p := h.Fail(c, msg)
				t.Fatalf("VK-VIOLATION property=C17 leg=rotbig replay=%s\n%s", p, msg)
			}
			tl.Evals++
			for _, cl := range o.Classes() {
				tl.Classes[cl]++
			}
			if k%n != 0 && k >= -n && k <= n {
				tl.NT++ // a proper rotation of a long slice
			}
			if i%211 == 7 {
				h.Sample(c, true)
			}
			i++
		}
	}
	h.MergeTally(tl)
}

func TestC17Exhaustive(t *testing.T) {
	h := vk.Start(t, "C17", "exh")
	e := newExh(h, t, c17Names, checkUtil)
	maxPart := h.Pick(12, 18)
	maxRot := h.Pick(24, 96)
	maxCB := h.Pick(20, 64)
	maxRows, maxRowLen := h.Pick(4, 5), h.Pick(3, 4)
	h.Note("exhaustive: Partition every keep pattern of n<=%d distinct elements (spare capacity 0 and 2); Rotate every n<=%d, k in [-n-2,n+2] (spare 0,1); "+
		"Chunks/Batches every len<=%d, n in [-1,max(17,len+3)] (spare 0,2); Head/Tail len<=%d, n in [0,len+2]; At/PtrAt len<=%d, i in [-len-2,len+2]; "+
		"Stripe every tuple of <=%d rows of lengths 0..%d, i in [0,max+1]; element kinds dealt by case index, half int", maxPart, maxRot, maxCB, maxCB, maxCB, maxRows, maxRowLen)
	top := max(maxPart, maxRot, maxCB)
	for n := 0; n <= top; n++ {
		var cases []UtilCase
		if n <= maxRot {
			for k := -n - 2; k <= n+2; k++ {
				for _, sp := range []int{0, 1} {
					cases = append(cases, UtilCase{Fn: "Rotate", N: n, K: k, Spare: sp})
				}
			}
		}
		if n <= maxCB {
			for k := -1; k <= max(17, n+3); k++ {
				for _, sp := range []int{0, 2} {
					cases = append(cases, UtilCase{Fn: "Chunks", N: n, K: k, Spare: sp}, UtilCase{Fn: "Batches", N: n, K: k, Spare: sp})
				}
			}
			for k := 0; k <= n+2; k++ {
				cases = append(cases, UtilCase{Fn: "Head", N: n, K: k, Spare: 1}, UtilCase{Fn: "Tail", N: n, K: k, Spare: 1})
			}
			for k := -n - 2; k <= n+2; k++ {
				cases = append(cases, UtilCase{Fn: "At", N: n, K: k}, UtilCase{Fn: "PtrAt", N: n, K: k})
			}
		}
		if n <= maxRows {
			// Stripe: every tuple of n row lengths
			for x := 0; x < ipow(maxRowLen+1, n); x++ {
				rows := digits(x, maxRowLen+1, n)
				mx := 0
				for _, l := range rows {
					mx = max(mx, l)
				}
				for i := 0; i <= mx+1; i++ {
					cases = append(cases, UtilCase{Fn: "Stripe", K: i, Rows: rows})
				}
			}
		}
		if !e.level(len(cases), func(i int) (UtilCase, bool) {
			c := cases[i]
			c.Elem, _ = cycleKind(i+n*7919, kindsUtil)
			if c.Elem == kindB8 && c.Fn == "Stripe" {
				c.Elem = elem.I16
			}
			return c, true
		}) {
			break
		}
		// the same calls on slices of the zero-size element types (one kind per
		// case, cycling), and Partition keeping everything / nothing
		for _, keep := range []int{0, 1} {
			for _, sp := range []int{0, 2} {
				if n <= maxPart {
					cases = append(cases, UtilCase{Fn: "Partition", N: n, Keep: []int{keep}, Spare: sp})
				}
			}
		}
		if !e.level(len(cases), func(i int) (UtilCase, bool) {
			c := cases[i]
			c.Elem = zeroKinds[(i+n)%len(zeroKinds)]
			return c, true
		}) {
			break
		}
		if n <= maxPart {
			if !e.level(2<<uint(n), func(i int) (UtilCase, bool) {
				c := UtilCase{Fn: "Partition", N: n, Keep: digits(i/2, 2, n), Spare: 2 * (i % 2)}
				var hh uint64
				c.Elem, hh = cycleKind(i+n*7919, kindsUtil)
				if hasTwins(c.Elem) {
					// equal-looking elements at the positions given by the hash, or everywhere
					for p := 0; p < n; p++ {
						if hh>>uint(p)&1 == 1 || hh>>20&3 == 0 {
							c.Dup = append(c.Dup, p)
						}
					}
				}
				return c, true
			}) {
				break
			}
		}
	}
	if !h.Failed() {
		huge := hugeZeroCases()
		h.Note("zero-size element types (struct{}, [0]int, [0]func(), cycling): every case above except the Partition patterns once more, lengths only; and %d directed calls on slices of 2^31 .. math.MaxInt elements (Batches, Chunks, Head, Tail, At, PtrAt), which take no memory", len(huge)*len(zeroKinds))
		e.level(len(huge)*len(zeroKinds), func(i int) (UtilCase, bool) {
			c := huge[i/len(zeroKinds)]
			c.Elem = zeroKinds[i%len(zeroKinds)]
			return c, true
		})
	}
	e.finish(true)
}

// hugeLens are the lengths only a slice of zero-size elements can have.
var hugeLens = []int{math.MaxInt, math.MaxInt - 1, math.MaxInt - 2, math.MaxInt - 5, math.MaxInt - 62, math.MaxInt - 63,
	math.MaxInt/2 + 1, math.MaxInt / 2, math.MaxInt/2 + 2, 1 << 62, 1<<62 - 1, 1<<62 + 1, 3 << 61, 1 << 61, 1<<53 + 1, 1 << 32, 1<<32 - 1, 1<<31 + 1, 1 << 31}

// hugeZeroCases are the directed calls on slices of hugeLens elements (the
// element kind is filled in by the caller).
func hugeZeroCases() []UtilCase {
	var out []UtilCase
	for _, l := range hugeLens {
		for _, k := range []int{-1, 0, 1, 2, 3, 4, 5, 6, 7, 8, 9, 15, 16, 17, 63, 64, 65, 100, 1000, 4095, 4096} {
			out = append(out, UtilCase{Fn: "Batches", N: l, K: k, Spare: k % 3})
		}
		for _, k := range []int{0, l, l - 1, l + 1, l / 2, l/2 + 1, l/2 - 1, l/3 + 1, l / 3, l / 5, l/7 + 1, l / 64, l/64 + 1, l/4096 + 1, math.MaxInt, math.MaxInt - 1, math.MaxInt - l + 1, math.MaxInt - l, math.MaxInt - l + 2} {
			// (l+1 wraps for MaxInt: a negative n, which must panic)
			out = append(out, UtilCase{Fn: "Chunks", N: l, K: k, Spare: max(k%3, 0)})
		}
		for _, k := range []int{0, 1, 2, l / 2, l - 1, l, l + 1, math.MaxInt, math.MaxInt - 1} {
			out = append(out, UtilCase{Fn: "Head", N: l, K: k, Spare: 1}, UtilCase{Fn: "Tail", N: l, K: k, Spare: 1})
		}
		for _, k := range []int{0, 1, -1, -2, l / 2, -l / 2, l - 2, l - 1, l, -l + 1, -l, -l - 1, -l - 2, math.MaxInt, math.MaxInt - 1, math.MinInt, math.MinInt + 1, math.MinInt + 2} {
			out = append(out, UtilCase{Fn: "At", N: l, K: k}, UtilCase{Fn: "PtrAt", N: l, K: k})
		}
	}
	return out
}
