package vk

import (
	"testing"

	"pgregory.net/rapid"
)

func TestRareRate(t *testing.T) {
	for _, n := range []int{50, 150, 400} {
		hits, total := 0, 0
		rapid.Check(t, func(rt *rapid.T) {
			total++
			if Rare(rt, "x", n) {
				hits++
			}
		})
		t.Logf("n=%d: %d of %d", n, hits, total)
	}
}
