package vk

import (
	"bytes"
	"encoding/json"
	"reflect"
	"strings"
	"unicode/utf8"
)

// Lossless JSON for cases.  encoding/json replaces bytes that are not valid
// UTF-8 by U+FFFD, so a case holding such a string would not replay as it
// ran.  Marshal writes every invalid byte b as the private-use rune U+F700+b
// (and, to stay reversible, the bytes of a genuine rune in U+F700..U+F7FF the
// same way); Unmarshal maps them back.  Strings without either are untouched,
// and the reflection walk only happens when the fast check finds one.

const puaLo, puaHi = 0xF700, 0xF7FF

func hasPUA(s string) bool {
	for i := 0; i+2 < len(s); i++ {
		if s[i] == 0xEF && (s[i+1] == 0x9C || s[i+1] == 0x9D || s[i+1] == 0x9E || s[i+1] == 0x9F) {
			return true
		}
	}
	return false
}

func escStr(s string) string {
	if utf8.ValidString(s) && !hasPUA(s) {
		return s
	}
	var b strings.Builder
	for i := 0; i < len(s); {
		r, n := utf8.DecodeRuneInString(s[i:])
		if (r == utf8.RuneError && n == 1) || (r >= puaLo && r <= puaHi) {
			for j := 0; j < n; j++ {
				b.WriteRune(puaLo + rune(s[i+j]))
			}
		} else {
			b.WriteString(s[i : i+n])
		}
		i += n
	}
	return b.String()
}

func unescStr(s string) string {
	if !hasPUA(s) {
		return s
	}
	var b strings.Builder
	for _, r := range s {
		if r >= puaLo && r <= puaHi {
			b.WriteByte(byte(r - puaLo))
		} else {
			b.WriteRune(r)
		}
	}
	return b.String()
}

// mapStrings returns a deep copy of v in which f has been applied to every
// string reachable through exported fields, slices, arrays, maps, pointers
// and interfaces.
func mapStrings(v reflect.Value, f func(string) string) reflect.Value {
	switch v.Kind() {
	case reflect.String:
		nv := reflect.New(v.Type()).Elem()
		nv.SetString(f(v.String()))
		return nv
	case reflect.Slice:
		if v.IsNil() || v.Type().Elem().Kind() == reflect.Uint8 {
			return v
		}
		nv := reflect.MakeSlice(v.Type(), v.Len(), v.Len())
		for i := 0; i < v.Len(); i++ {
			nv.Index(i).Set(mapStrings(v.Index(i), f))
		}
		return nv
	case reflect.Array:
		nv := reflect.New(v.Type()).Elem()
		for i := 0; i < v.Len(); i++ {
			nv.Index(i).Set(mapStrings(v.Index(i), f))
		}
		return nv
	case reflect.Struct:
		nv := reflect.New(v.Type()).Elem()
		nv.Set(v)
		for i := 0; i < v.NumField(); i++ {
			if nv.Field(i).CanSet() {
				nv.Field(i).Set(mapStrings(v.Field(i), f))
			}
		}
		return nv
	case reflect.Pointer:
		if v.IsNil() {
			return v
		}
		nv := reflect.New(v.Type().Elem())
		nv.Elem().Set(mapStrings(v.Elem(), f))
		return nv
	case reflect.Map:
		if v.IsNil() {
			return v
		}
		nv := reflect.MakeMapWithSize(v.Type(), v.Len())
		it := v.MapRange()
		for it.Next() {
			nv.SetMapIndex(mapStrings(it.Key(), f), mapStrings(it.Value(), f))
		}
		return nv
	case reflect.Interface:
		if v.IsNil() {
			return v
		}
		nv := reflect.New(v.Type()).Elem()
		nv.Set(mapStrings(v.Elem(), f))
		return nv
	}
	return v
}

var fffdEscape = []byte("\\ufffd") // the six ASCII characters encoding/json writes for an invalid byte

// Marshal is json.Marshal that keeps invalid UTF-8 in strings (see above).
func Marshal(c any) ([]byte, error) {
	js, err := json.Marshal(c)
	if err != nil {
		return js, err
	}
	if !bytes.Contains(js, fffdEscape) && !hasPUA(string(js)) {
		return js, nil
	}
	return json.Marshal(mapStrings(reflect.ValueOf(c), escStr).Interface())
}

// Unmarshal is the inverse of Marshal; ptr must be a non-nil pointer.
func Unmarshal(raw []byte, ptr any) error {
	if err := json.Unmarshal(raw, ptr); err != nil {
		return err
	}
	if hasPUA(string(raw)) {
		rv := reflect.ValueOf(ptr).Elem()
		rv.Set(mapStrings(rv, unescStr))
	}
	return nil
}
