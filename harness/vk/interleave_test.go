package vk

import (
	"strings"
	"testing"
)

func TestInterleaveAlternates(t *testing.T) {
	var log strings.Builder
	f := func(name string, n int) func(o *Obs) string {
		return func(o *Obs) string {
			for i := 0; i < n; i++ {
				o.Step()
				log.WriteString(name)
			}
			return ""
		}
	}
	Interleave(f("a", 3), f("b", 5))
	if got := log.String(); got != "babababb" && got != "abababbb" {
		t.Fatalf("schedule %q", got)
	}
	log.Reset()
	m0, m1 := Interleave(func(o *Obs) string { o.Step(); panic("boom") }, f("b", 2))
	if !strings.Contains(m0, "boom") || m1 != "" || log.String() != "bb" {
		t.Fatalf("panic case: %q %q %q", m0, m1, log.String())
	}
}
