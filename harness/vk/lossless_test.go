package vk

import (
	"bytes"
	"reflect"
	"testing"
)

type llCase struct {
	A  string
	B  []string
	C  map[string][]string
	D  *llCase
	E  [2]string
	N  int
	by []byte
	F  any
}

func TestLossless(t *testing.T) {
	in := llCase{A: "9\xb0", B: []string{"ok", "\xff\xfe", "x", "é\x80"}, C: map[string][]string{"k\xc3": {"\x00\xf4"}}, D: &llCase{A: "\xed\xa0\x80"}, E: [2]string{"\xc0", "fine"}, N: 3, F: "str\xfe"}
	js, err := Marshal(in)
	if err != nil {
		t.Fatal(err)
	}
	if bytes.Contains(js, []byte("ufffd")) {
		t.Fatalf("lossy encoding: %s", js)
	}
	for _, one := range []string{"9\xb0", "\xff", "a\xc3", "\uf700", "\uf7ffx\x80"} {
		b, _ := Marshal(one)
		var back string
		if err := Unmarshal(b, &back); err != nil || back != one {
			t.Fatalf("%q -> %s -> %q (%v)", one, b, back, err)
		}
	}
	var out llCase
	if err := Unmarshal(js, &out); err != nil {
		t.Fatal(err)
	}
	if !reflect.DeepEqual(in, out) {
		t.Fatalf("round trip differs:\n in %+v\nout %+v\n js %s", in, out, js)
	}
	plain := llCase{A: "abc", B: []string{"x"}}
	js, _ = Marshal(plain)
	var p2 llCase
	Unmarshal(js, &p2)
	if !reflect.DeepEqual(plain, p2) {
		t.Fatalf("plain round trip differs")
	}
}
