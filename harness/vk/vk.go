// Package vk is the shared kit of the verification harness: run environment,
// statistics, distinct-case accounting, sampling, replay files, the per-case
// guard (panic capture and CPU-time watchdog) and small enumeration helpers.
//
// Protocol with the driver (/verif/check): every leg is a Go test function.
// The driver passes
//
//	VK_PROP, VK_LEG, VK_TIER, VK_SEED, VK_SHARD, VK_NSHARDS, VK_OUT, VK_REPLAYDIR
//
// and the leg writes VK_OUT/stats.json (+ VK_OUT/nt.bin, 64-bit hashes of its
// non-trivial cases) when it ends, however it ends.  A violation is recorded
// in stats.json together with the path of a replay file; the test then fails.
// A test that fails WITHOUT a recorded violation is an infrastructure error.
package vk

import (
	"encoding/binary"
	"encoding/json"
	"fmt"
	"hash/fnv"
	"os"
	"path/filepath"
	"runtime"
	"runtime/debug"
	"sort"
	"strconv"
	"strings"
	"sync"
	"sync/atomic"
	"syscall"
	"testing"
	"time"

	"pgregory.net/rapid"
)

// H is the per-leg harness handle.
type H struct {
	Prop, Leg, Tier  string
	Seed             uint64
	Shard, NShards   int
	OutDir, ReplayTo string
	NoTriage         bool // replay of a known-finding witness: report the raw verdict

	mu       sync.Mutex
	evals    int64
	classes  map[string]int64
	nt       map[uint64]struct{}
	ntPlain  int64 // distinct by construction (exhaustive enumerators)
	known    map[string]int64
	samples  []sample
	viol     []Violation
	notes    []string
	exhaust  bool
	frozen   atomic.Bool
	bestSize int
	bestCase json.RawMessage
	bestMsg  string
	// recent holds the JSON of the cases executed most recently in this
	// process (rapid legs); bestCtx is its content at the moment bestCase was
	// recorded.  It becomes the replay file's context when the failing case
	// does not fail on its own (state carried over from earlier cases).
	recent    [][]byte
	bestCtx   [][]byte
	ctxUsed   []json.RawMessage
	ctxNote   string
	flushed   bool
	cur       []*curCase
	watchStop chan struct{}
}

type sample struct {
	hash uint64
	nt   bool
	js   json.RawMessage
}

// Violation is one recorded failure of the property.
type Violation struct {
	Message string `json:"message"`
	Replay  string `json:"replay"`
}

// ReplayFile is the on-disk format of a replayable case.
type ReplayFile struct {
	Property string          `json:"property"`
	Leg      string          `json:"leg"`
	Tier     string          `json:"tier,omitempty"`
	Seed     uint64          `json:"seed,omitempty"`
	Message  string          `json:"message,omitempty"`
	Case     json.RawMessage `json:"case"`
	// Context lists cases to execute (results ignored) before Case: the
	// failure needs state that earlier cases of the same process left behind
	// in the code under test (a pool, a cache, a package-level variable).
	Context []json.RawMessage `json:"context,omitempty"`
	Note    string            `json:"note,omitempty"`
}

func envInt(name string, def int) int {
	if v, err := strconv.Atoi(os.Getenv(name)); err == nil {
		return v
	}
	return def
}

// Start creates the handle for one leg and arranges for stats to be flushed
// when the test ends.
func Start(t *testing.T, prop, leg string) *H {
	h := &H{
		Prop: prop, Leg: leg,
		Tier:     os.Getenv("VK_TIER"),
		Shard:    envInt("VK_SHARD", 0),
		NShards:  envInt("VK_NSHARDS", 1),
		OutDir:   os.Getenv("VK_OUT"),
		ReplayTo: os.Getenv("VK_REPLAYDIR"),
		classes:  map[string]int64{},
		nt:       map[uint64]struct{}{},
		known:    map[string]int64{},
	}
	if h.Tier == "" {
		h.Tier = "quick"
	}
	if s, err := strconv.ParseUint(os.Getenv("VK_SEED"), 10, 64); err == nil {
		h.Seed = s
	} else {
		h.Seed = 1
	}
	if h.OutDir == "" {
		h.OutDir = t.TempDir()
	}
	if h.ReplayTo == "" {
		h.ReplayTo = h.OutDir
	}
	h.startWatch()
	t.Cleanup(func() { h.stopWatch(); h.Flush() })
	return h
}

// MaxOps returns the bound on the number of drawn operations for a history:
// q in the quick tier; in the thorough tier one case in four may be long.
func MaxOps(t *rapid.T, q, long int) int {
	if os.Getenv("VK_TIER") == "thorough" && rapid.IntRange(0, 3).Draw(t, "longHistory") == 0 {
		return long
	}
	return q
}

// Thorough reports whether the thorough tier was requested.
func (h *H) Thorough() bool { return h.Tier == "thorough" }

// Pick returns q in the quick tier and th in the thorough tier.
func (h *H) Pick(q, th int) int {
	if h.Thorough() {
		return th
	}
	return q
}

// Mix derives a deterministic 64-bit value from the seed, shard and a label.
func (h *H) Mix(label string) uint64 {
	f := fnv.New64a()
	fmt.Fprintf(f, "%d/%d/%s/%s/%s", h.Seed, h.Shard, h.Prop, h.Leg, label)
	return splitmix(f.Sum64())
}

func splitmix(x uint64) uint64 {
	x += 0x9e3779b97f4a7c15
	x = (x ^ (x >> 30)) * 0xbf58476d1ce4e5b9
	x = (x ^ (x >> 27)) * 0x94d049bb133111eb
	return x ^ (x >> 31)
}

// RNG is a tiny deterministic generator for the places where an enumerator
// wants pseudo-random extras that are a pure function of the seed.
type RNG struct{ s uint64 }

func (h *H) RNG(label string) *RNG { return &RNG{s: h.Mix(label)} }
func NewRNG(seed uint64) *RNG      { return &RNG{s: seed} }
func (r *RNG) Uint64() uint64      { r.s += 0x9e3779b97f4a7c15; return splitmix(r.s) }
func (r *RNG) Intn(n int) int {
	if n <= 0 {
		return 0
	}
	return int(r.Uint64() % uint64(n))
}

// Note records a free-text note for the evidence file.
func (h *H) Note(format string, args ...any) {
	h.mu.Lock()
	defer h.mu.Unlock()
	h.notes = append(h.notes, fmt.Sprintf(format, args...))
}

// Exhaustive marks this leg as having enumerated a finite space completely.
func (h *H) Exhaustive() { h.mu.Lock(); h.exhaust = true; h.mu.Unlock() }

// Obs collects what one case execution observed; it is merged into the
// statistics only if the run is not frozen (i.e. not while shrinking).
type Obs struct {
	NT      bool
	classes []string
	known   []string
	// NoTriage asks the interpreter to report the raw property verdict.
	NoTriage bool
}

// KnownIDs returns the known-finding ids this case was attributed to.
func (o *Obs) KnownIDs() []string { return o.known }

// Classes returns the labels recorded so far (for enumerators that tally themselves).
func (o *Obs) Classes() []string { return o.classes }

// AddObs folds one case's observation into the tally.
func (t *Tally) AddObs(o *Obs) {
	t.Evals++
	if o.NT {
		t.NT++
	}
	seen := map[string]bool{}
	for _, c := range o.classes {
		if !seen[c] {
			seen[c] = true
			t.Classes[c]++
		}
	}
}

func (o *Obs) Class(name string) { o.classes = append(o.classes, name) }
func (o *Obs) ClassIf(c bool, n string) {
	if c {
		o.classes = append(o.classes, n)
	}
}
func (o *Obs) Known(id string) { o.known = append(o.known, id) }
func (o *Obs) NonTrivial()     { o.NT = true }

const maxSampleBytes = 3000

// record merges one executed case into the statistics.
func (h *H) record(js []byte, o *Obs) {
	if h.frozen.Load() {
		return
	}
	hash := hashBytes(js)
	h.mu.Lock()
	defer h.mu.Unlock()
	h.evals++
	seen := map[string]bool{}
	for _, c := range o.classes {
		if !seen[c] {
			seen[c] = true
			h.classes[c]++
		}
	}
	for _, k := range o.known {
		h.known[k]++
	}
	if o.NT {
		h.nt[hash] = struct{}{}
		h.classes["nontrivial"]++
	}
	if len(js) <= maxSampleBytes {
		h.offerSample(sample{hash: hash, nt: o.NT, js: append(json.RawMessage(nil), js...)})
	}
}

// offerSample keeps up to 4 samples: non-trivial ones are preferred, ties are
// broken by smallest hash (a deterministic, seed-independent uniform pick).
func (h *H) offerSample(s sample) {
	const keep = 4
	h.samples = append(h.samples, s)
	sort.SliceStable(h.samples, func(i, j int) bool {
		a, b := h.samples[i], h.samples[j]
		if a.nt != b.nt {
			return a.nt
		}
		return a.hash < b.hash
	})
	if len(h.samples) > keep {
		h.samples = h.samples[:keep]
	}
}

func hashBytes(b []byte) uint64 {
	f := fnv.New64a()
	f.Write(b)
	return f.Sum64()
}

// Tally is the cheap path for exhaustive enumerators: the cases are distinct
// by construction, so only counters are kept.  sampleFn is called rarely.
type Tally struct {
	Evals, NT int64
	Classes   map[string]int64
}

func NewTally() *Tally { return &Tally{Classes: map[string]int64{}} }

// MergeTally adds an enumerator's counters (distinct by construction).
func (h *H) MergeTally(t *Tally) {
	h.mu.Lock()
	defer h.mu.Unlock()
	h.evals += t.Evals
	h.ntPlain += t.NT
	for k, v := range t.Classes {
		h.classes[k] += v
	}
	if t.NT > 0 {
		h.classes["nontrivial"] += t.NT
	}
}

// Sample offers one case (any JSON-able value) as an evidence sample.
func (h *H) Sample(c any, nt bool) {
	js, err := Marshal(c)
	if err != nil || len(js) > maxSampleBytes {
		return
	}
	h.mu.Lock()
	defer h.mu.Unlock()
	h.offerSample(sample{hash: hashBytes(js), nt: nt, js: js})
}

// KnownHit counts an occurrence of a known finding.
func (h *H) KnownHit(id string, n int64) {
	h.mu.Lock()
	h.known[id] += n
	h.mu.Unlock()
}

// Count adds n to a class counter directly.
func (h *H) Count(class string, n int64) {
	h.mu.Lock()
	h.classes[class] += n
	h.mu.Unlock()
}

// Fail records a violation for case c (smallest failing case wins) and
// freezes the statistics.  It returns the replay path.
func (h *H) Fail(c any, msg string) string {
	js, err := Marshal(c)
	if err != nil {
		js = []byte(fmt.Sprintf("%q", fmt.Sprint(c)))
	}
	h.frozen.Store(true)
	h.mu.Lock()
	defer h.mu.Unlock()
	if h.bestCase == nil || len(js) < h.bestSize {
		h.bestCase, h.bestSize, h.bestMsg = js, len(js), msg
		h.bestCtx = append([][]byte(nil), h.recent...)
		h.writeReplayLocked()
	}
	return h.replayPath()
}

const recentKeep = 48

// remember appends one executed case to the ring of recent cases.
func (h *H) remember(js []byte) {
	if len(js) > 1<<20 {
		js = []byte("null")
	}
	h.mu.Lock()
	if len(h.recent) >= recentKeep {
		copy(h.recent, h.recent[1:])
		h.recent = h.recent[:recentKeep-1]
	}
	h.recent = append(h.recent, append([]byte(nil), js...))
	h.mu.Unlock()
}

func (h *H) replayPath() string {
	return filepath.Join(h.ReplayTo, fmt.Sprintf("%s-%s-%s-seed%d-shard%d.json", h.Prop, h.Leg, h.Tier, h.Seed, h.Shard))
}

func (h *H) writeReplayLocked() {
	rf := ReplayFile{Property: h.Prop, Leg: h.Leg, Tier: h.Tier, Seed: h.Seed, Message: h.bestMsg, Case: h.bestCase, Context: h.ctxUsed, Note: h.ctxNote}
	b, _ := json.MarshalIndent(rf, "", " ")
	os.MkdirAll(h.ReplayTo, 0o755)
	os.WriteFile(h.replayPath(), append(b, '\n'), 0o644)
}

// noteCaseTime keeps the duration of the slowest case (margin to the watchdog).
func (h *H) noteCaseTime(d time.Duration) {
	ms := d.Milliseconds()
	h.mu.Lock()
	if ms > h.classes["max_case_ms"] {
		h.classes["max_case_ms"] = ms
	}
	h.mu.Unlock()
}

// Failed reports whether a violation has been recorded.
func (h *H) Failed() bool { return h.frozen.Load() }

// Flush writes stats.json and nt.bin.  Safe to call more than once.
func (h *H) Flush() {
	h.mu.Lock()
	defer h.mu.Unlock()
	if h.bestCase != nil && len(h.viol) == 0 {
		h.viol = append(h.viol, Violation{Message: h.bestMsg, Replay: h.replayPath()})
	}
	type out struct {
		Property    string            `json:"property"`
		Leg         string            `json:"leg"`
		Tier        string            `json:"tier"`
		Seed        uint64            `json:"seed"`
		Shard       int               `json:"shard"`
		Evaluations int64             `json:"evaluations"`
		NTHashed    int               `json:"nt_hashed"`
		NTPlain     int64             `json:"nt_plain"`
		Classes     map[string]int64  `json:"classes"`
		Known       map[string]int64  `json:"known_hits"`
		Samples     []json.RawMessage `json:"samples"`
		Violations  []Violation       `json:"violations"`
		Notes       []string          `json:"notes"`
		Exhaustive  bool              `json:"exhaustive"`
	}
	o := out{Property: h.Prop, Leg: h.Leg, Tier: h.Tier, Seed: h.Seed, Shard: h.Shard,
		Evaluations: h.evals, NTHashed: len(h.nt), NTPlain: h.ntPlain, Classes: h.classes,
		Known: h.known, Violations: h.viol, Notes: h.notes, Exhaustive: h.exhaust}
	for _, s := range h.samples {
		o.Samples = append(o.Samples, s.js)
	}
	os.MkdirAll(h.OutDir, 0o755)
	b, _ := json.MarshalIndent(o, "", " ")
	os.WriteFile(filepath.Join(h.OutDir, "stats.json"), b, 0o644)
	buf := make([]byte, 0, 8*len(h.nt))
	for k := range h.nt {
		buf = binary.LittleEndian.AppendUint64(buf, k)
	}
	os.WriteFile(filepath.Join(h.OutDir, "nt.bin"), buf, 0o644)
	h.flushed = true
}

// ---------------------------------------------------------------------------
// Per-case guard: panic capture + CPU-time watchdog.

type curCase struct {
	seq   atomic.Int64
	mu    sync.Mutex
	c     any
	start time.Time
	cpu   time.Duration
}

func cpuTime() time.Duration {
	var ru syscall.Rusage
	if err := syscall.Getrusage(syscall.RUSAGE_SELF, &ru); err != nil {
		return 0
	}
	return time.Duration(ru.Utime.Nano() + ru.Stime.Nano())
}

// Slot returns a watchdog slot for one worker goroutine.
func (h *H) Slot() *curCase {
	cc := &curCase{}
	h.mu.Lock()
	h.cur = append(h.cur, cc)
	h.mu.Unlock()
	return cc
}

// Enter marks the start of a case on this slot; Leave marks its end.
func (cc *curCase) Enter(c any) {
	cc.mu.Lock()
	cc.c, cc.start, cc.cpu = c, time.Now(), cpuTime()
	cc.mu.Unlock()
	cc.seq.Add(1)
}
func (cc *curCase) Leave() {
	cc.mu.Lock()
	cc.c = nil
	cc.mu.Unlock()
	cc.seq.Add(1)
}

// Watchdog thresholds.  A case of any leg costs milliseconds of CPU; a case
// that is still running after 60 s of wall time during which this process
// burned more than 20 s of CPU is not going to return.  (Wall time alone is
// never used: a frozen VM or a starved machine burns no CPU in this process.)
const (
	hangWall = 60 * time.Second
	hangCPU  = 45 * time.Second
)

func (h *H) startWatch() {
	stop := make(chan struct{})
	h.watchStop = stop
	go func() {
		tk := time.NewTicker(500 * time.Millisecond)
		defer tk.Stop()
		for {
			select {
			case <-stop:
				return
			case <-tk.C:
			}
			h.mu.Lock()
			slots := append([]*curCase(nil), h.cur...)
			h.mu.Unlock()
			now, cpu := time.Now(), cpuTime()
			for _, cc := range slots {
				cc.mu.Lock()
				c, st, c0 := cc.c, cc.start, cc.cpu
				cc.mu.Unlock()
				if c == nil || now.Sub(st) < hangWall || cpu-c0 < hangCPU {
					continue
				}
				msg := fmt.Sprintf("operation did not return: case still running after %v wall / %v CPU (cases of this leg cost milliseconds)", now.Sub(st).Round(time.Second), (cpu - c0).Round(time.Second))
				p := h.Fail(c, msg)
				h.Flush()
				fmt.Printf("VK-HANG property=%s leg=%s replay=%s\n", h.Prop, h.Leg, p)
				os.Exit(1)
			}
		}
	}()
}

func (h *H) stopWatch() {
	if h.watchStop != nil {
		close(h.watchStop)
		h.watchStop = nil
	}
}

// Guard runs f, converting a panic into a violation message.
func Guard(f func() string) (msg string) {
	defer func() {
		if r := recover(); r != nil {
			st := string(debug.Stack())
			// keep the interesting part of the stack short
			lines := strings.Split(st, "\n")
			if len(lines) > 24 {
				lines = lines[:24]
			}
			msg = fmt.Sprintf("unexpected panic: %v\n%s", r, strings.Join(lines, "\n"))
		}
	}()
	return f()
}

// PanicValue runs f and returns the recovered panic value (nil if none).
func PanicValue(f func()) (r any) {
	defer func() { r = recover() }()
	f()
	return nil
}

// ---------------------------------------------------------------------------
// rapid-driven legs.

// RunFunc interprets a case against the real code and its oracle and returns
// "" or a violation message.
type RunFunc[C any] func(c C, o *Obs) string

type legEntry struct {
	replay func(raw json.RawMessage, noTriage bool) (string, error)
}

var (
	regMu sync.Mutex
	reg   = map[string]legEntry{}
)

// Register makes run available to the replay entry point under (prop, leg).
func Register[C any](prop, leg string, run RunFunc[C]) {
	regMu.Lock()
	defer regMu.Unlock()
	reg[prop+"/"+leg] = legEntry{replay: func(raw json.RawMessage, noTriage bool) (string, error) {
		var c C
		if err := Unmarshal(raw, &c); err != nil {
			return "", err
		}
		o := &Obs{NoTriage: noTriage}
		return Guard(func() string { return run(c, o) }), nil
	}}
}

// Rapid drives run with cases drawn by gen.  The number of cases comes from
// -rapid.checks, the seed from -rapid.seed (both set by the driver).
func Rapid[C any](h *H, t *testing.T, gen func(*rapid.T) C, run RunFunc[C]) {
	slot := h.Slot()
	defer func() {
		if h.Failed() {
			confirmReplay(h, run)
		}
	}()
	rapid.Check(t, func(rt *rapid.T) {
		c := gen(rt)
		o := &Obs{}
		slot.Enter(c)
		t0 := time.Now()
		msg := Guard(func() string { return run(c, o) })
		h.noteCaseTime(time.Since(t0))
		slot.Leave()
		js, _ := Marshal(c)
		if msg != "" {
			p := h.Fail(c, msg)
			h.remember(js)
			rt.Fatalf("VK-VIOLATION property=%s leg=%s replay=%s\n%s", h.Prop, h.Leg, p, msg)
		}
		h.remember(js)
		if !h.frozen.Load() {
			h.record(js, o)
		}
	})
}

// confirmReplay checks, in this process, that the recorded failing case fails
// when it is decoded from its JSON and run on its own, the way the replay
// entry will run it.  If it does not (the failure needed state that earlier
// cases left behind in the code under test), the cases executed before it are
// added to the replay file as context, provided that makes it fail again.
func confirmReplay[C any](h *H, run RunFunc[C]) {
	h.mu.Lock()
	best, ctx := h.bestCase, h.bestCtx
	h.mu.Unlock()
	if best == nil {
		return
	}
	exec := func(raw []byte) string {
		var c C
		if Unmarshal(raw, &c) != nil {
			return ""
		}
		done := make(chan string, 1)
		go func() { done <- Guard(func() string { return run(c, &Obs{}) }) }()
		select {
		case m := <-done:
			return m
		case <-time.After(2 * hangWall):
			return "operation did not return"
		}
	}
	settle := func() { runtime.GC(); runtime.GC() } // empties sync.Pools
	settle()
	if exec(best) != "" {
		return // fails on its own
	}
	settle()
	for _, raw := range ctx {
		exec(raw)
	}
	again := exec(best)
	h.mu.Lock()
	defer h.mu.Unlock()
	if again != "" {
		for _, raw := range ctx {
			h.ctxUsed = append(h.ctxUsed, json.RawMessage(raw))
		}
		h.ctxNote = "the case fails only after the context cases have run in the same process (state left behind in the code under test)"
	} else {
		h.ctxNote = "the case failed during the run but neither alone nor after the preceding cases when tried again in the same process: it depends on state this file does not capture"
	}
	h.writeReplayLocked()
}

// One runs a single non-rapid case (exhaustive enumerators with few, large
// cases use this; for millions of tiny cases use Tally + Slot directly).
func One[C any](h *H, slot *curCase, c C, run RunFunc[C]) (msg string) {
	o := &Obs{}
	slot.Enter(c)
	msg = Guard(func() string { return run(c, o) })
	slot.Leave()
	if msg != "" {
		h.Fail(c, msg)
		return msg
	}
	js, _ := Marshal(c)
	h.record(js, o)
	return ""
}

// Parallel runs body(worker, i) for i in [0,n) on w goroutines (strided).
// It stops early once a violation has been recorded.
func Parallel(h *H, n int, body func(worker, i int)) {
	w := runtime.GOMAXPROCS(0)
	if w > n {
		w = n
	}
	if w < 1 {
		w = 1
	}
	var wg sync.WaitGroup
	for k := 0; k < w; k++ {
		wg.Add(1)
		go func(k int) {
			defer wg.Done()
			for i := k; i < n; i += w {
				if h.Failed() {
					return
				}
				body(k, i)
			}
		}(k)
	}
	wg.Wait()
}

// Workers reports the number of goroutines Parallel uses for n items.
func Workers(n int) int {
	w := runtime.GOMAXPROCS(0)
	if w > n {
		w = n
	}
	if w < 1 {
		w = 1
	}
	return w
}

// ReplayMain is the body of each package's TestReplay.
func ReplayMain(t *testing.T) {
	path := os.Getenv("VK_REPLAY")
	if path == "" {
		t.Skip("VK_REPLAY not set")
	}
	b, err := os.ReadFile(path)
	if err != nil {
		t.Fatalf("VK-INFRA cannot read replay: %v", err)
	}
	var rf ReplayFile
	if err := json.Unmarshal(b, &rf); err != nil {
		t.Fatalf("VK-INFRA cannot parse replay: %v", err)
	}
	regMu.Lock()
	e, ok := reg[rf.Property+"/"+rf.Leg]
	regMu.Unlock()
	if !ok {
		t.Fatalf("VK-INFRA no leg %s/%s in this package", rf.Property, rf.Leg)
	}
	done := make(chan struct{})
	var msg string
	var rerr error
	go func() {
		defer close(done)
		// A failure that needs the context depends on state such as a
		// sync.Pool, which the runtime may drop at any time: try a few times.
		attempts := 1
		if len(rf.Context) > 0 {
			attempts = 6
		}
		for a := 0; a < attempts && msg == "" && rerr == nil; a++ {
			for _, raw := range rf.Context {
				e.replay(raw, true) // context: results ignored
			}
			msg, rerr = e.replay(rf.Case, os.Getenv("VK_NOTRIAGE") == "1")
		}
	}()
	c0 := cpuTime()
	start := time.Now()
	tk := time.NewTicker(500 * time.Millisecond)
	defer tk.Stop()
wait:
	for {
		select {
		case <-done:
			break wait
		case <-tk.C:
			if time.Since(start) >= hangWall && cpuTime()-c0 >= hangCPU {
				msg = "operation did not return (replay still running after 60 s wall / 45 s CPU)"
				break wait
			}
		}
	}
	if rerr != nil {
		t.Fatalf("VK-INFRA cannot decode case: %v", rerr)
	}
	if msg != "" {
		first := msg
		if i := strings.IndexByte(first, '\n'); i >= 0 {
			first = first[:i]
		}
		fmt.Printf("VK-REPLAY-FAIL property=%s leg=%s :: %s\n", rf.Property, rf.Leg, first)
		t.Fatalf("replay reproduces the violation:\n%s", msg)
	}
	fmt.Printf("VK-REPLAY-PASS property=%s leg=%s\n", rf.Property, rf.Leg)
}

// ---------------------------------------------------------------------------
// Native fuzz targets (thorough tier).  The fuzz function runs in worker
// processes, so it does not use H; a violation is written as a replay file
// (smallest case per process wins) and reported with a VK-FUZZ-VIOLATION line.

var (
	fuzzMu   sync.Mutex
	fuzzBest = map[string]int{}
)

// FuzzCheck runs run on c inside a fuzz target and fails t on a violation.
func FuzzCheck[C any](t *testing.T, prop, leg string, c C, run RunFunc[C]) {
	o := &Obs{}
	msg := Guard(func() string { return run(c, o) })
	if msg == "" {
		return
	}
	js, _ := Marshal(c)
	dir := os.Getenv("VK_REPLAYDIR")
	if dir == "" {
		dir = os.TempDir()
	}
	path := filepath.Join(dir, fmt.Sprintf("%s-%s-fuzz-%d.json", prop, leg, os.Getpid()))
	fuzzMu.Lock()
	if best, ok := fuzzBest[path]; !ok || len(js) < best {
		fuzzBest[path] = len(js)
		rf := ReplayFile{Property: prop, Leg: leg, Tier: "thorough", Message: msg, Case: js}
		b, _ := json.MarshalIndent(rf, "", " ")
		os.MkdirAll(dir, 0o755)
		os.WriteFile(path, append(b, '\n'), 0o644)
	}
	fuzzMu.Unlock()
	t.Fatalf("VK-FUZZ-VIOLATION property=%s leg=%s replay=%s\n%s", prop, leg, path, msg)
}
