// Package vk is the shared kit of the verification harness: run environment,
// statistics, distinct-case accounting, sampling, replay files, the per-case
// guard (panic capture and CPU-time watchdog) and small enumeration helpers.
//
// Protocol with the driver (/verif/check): every leg is a Go test function.
// The driver passes
//
//	VK_PROP, VK_LEG, VK_TIER, VK_SEED, VK_SHARD, VK_NSHARDS, VK_OUT, VK_REPLAYDIR
//
// and the leg writes VK_OUT/stats.json (+ VK_OUT/nt.bin, 64-bit hashes of its
// non-trivial cases) when it ends, however it ends.  A violation is recorded
// in stats.json together with the path of a replay file; the test then fails.
// A test that fails WITHOUT a recorded violation is an infrastructure error.
package vk

import (
	"encoding/binary"
	"encoding/json"
	"fmt"
	"hash/fnv"
	"iter"
	"os"
	"path/filepath"
	"runtime"
	"runtime/debug"
	"sort"
	"strconv"
	"strings"
	"sync"
	"sync/atomic"
	"syscall"
	"testing"
	"time"

	"pgregory.net/rapid"
)

// H is the per-leg harness handle.
type H struct {
	Prop, Leg, Tier  string
	Seed             uint64
	Shard, NShards   int
	OutDir, ReplayTo string
	NoTriage         bool // replay of a known-finding witness: report the raw verdict

	mu       sync.Mutex
	evals    int64
	classes  map[string]int64
	nt       map[uint64]struct{}
	ntPlain  int64 // distinct by construction (exhaustive enumerators)
	known    map[string]int64
	samples  []sample
	viol     []Violation
	notes    []string
	exhaust  bool
	frozen   atomic.Bool
	bestSize int
	bestCase json.RawMessage
	bestMsg  string
	// recent holds the JSON of the cases executed most recently in this
	// process (rapid legs); bestCtx is its content at the moment bestCase was
	// recorded.  It becomes the replay file's context when the failing case
	// does not fail on its own (state carried over from earlier cases).
	recent    [][]byte
	bestCtx   [][]byte
	ctxUsed   []json.RawMessage
	ctxNote   string
	bestPar   int
	bestMode  string
	patience  int // multiplier of the hang limits (legs whose cases legitimately run for minutes)
	pendPar   int
	pendMode  string
	pendCtx   []json.RawMessage
	flushed   bool
	cur       []*curCase
	watchStop chan struct{}
}

type sample struct {
	hash uint64
	nt   bool
	js   json.RawMessage
}

// Violation is one recorded failure of the property.
type Violation struct {
	Message string `json:"message"`
	Replay  string `json:"replay"`
}

// ReplayFile is the on-disk format of a replayable case.
type ReplayFile struct {
	Property string          `json:"property"`
	Leg      string          `json:"leg"`
	Tier     string          `json:"tier,omitempty"`
	Seed     uint64          `json:"seed,omitempty"`
	Message  string          `json:"message,omitempty"`
	Case     json.RawMessage `json:"case"`
	// Context lists cases to execute (results ignored) before Case: the
	// failure needs state that earlier cases of the same process left behind
	// in the code under test (a pool, a cache, a package-level variable).
	Context []json.RawMessage `json:"context,omitempty"`
	Note    string            `json:"note,omitempty"`
	// Par > 1: the failure was seen while Par goroutines ran the case at the
	// same time, each on its own instances; the replay does the same.
	Par int `json:"par,omitempty"`
	// Mode "interleave": the failure was seen while Case and Context[0] were
	// executed in alternation, operation by operation, in one thread of
	// control (see Interleave); the replay does the same.  Mode "par": Case
	// and the Context cases ran on goroutines of their own at the same time.
	// Mode "retain": a result that Context[0] had obtained and verified was no
	// longer what it was after Case had run (see Obs.Retain); the message is
	// about Context[0]'s result.
	Mode string `json:"mode,omitempty"`
	// Patience > 1 multiplies the replay's hang limits (see H.Patience).
	Patience int `json:"patience,omitempty"`
}

func envInt(name string, def int) int {
	if v, err := strconv.Atoi(os.Getenv(name)); err == nil {
		return v
	}
	return def
}

// Patience multiplies the watchdog's limits for this leg's cases (and for the
// replay of a case it saves): for legs whose cases legitimately run for
// minutes.
func (h *H) Patience(factor int) { h.mu.Lock(); h.patience = factor; h.mu.Unlock() }

// Start creates the handle for one leg and arranges for stats to be flushed
// when the test ends.
func Start(t *testing.T, prop, leg string) *H {
	h := &H{
		Prop: prop, Leg: leg,
		Tier:     os.Getenv("VK_TIER"),
		Shard:    envInt("VK_SHARD", 0),
		NShards:  envInt("VK_NSHARDS", 1),
		OutDir:   os.Getenv("VK_OUT"),
		ReplayTo: os.Getenv("VK_REPLAYDIR"),
		classes:  map[string]int64{},
		nt:       map[uint64]struct{}{},
		known:    map[string]int64{},
	}
	if h.Tier == "" {
		h.Tier = "quick"
	}
	if s, err := strconv.ParseUint(os.Getenv("VK_SEED"), 10, 64); err == nil {
		h.Seed = s
	} else {
		h.Seed = 1
	}
	if h.OutDir == "" {
		h.OutDir = t.TempDir()
	}
	if h.ReplayTo == "" {
		h.ReplayTo = h.OutDir
	}
	h.startWatch()
	t.Cleanup(func() { h.stopWatch(); h.Flush() })
	return h
}

// MaxOps returns the bound on the number of drawn operations for a history:
// q in the quick tier; in the thorough tier one case in four may be long.
func MaxOps(t *rapid.T, q, long int) int {
	if os.Getenv("VK_TIER") == "thorough" && rapid.IntRange(0, 3).Draw(t, "longHistory") == 0 {
		return long
	}
	return q
}

// Thorough reports whether the thorough tier was requested.
func (h *H) Thorough() bool { return h.Tier == "thorough" }

// Pick returns q in the quick tier and th in the thorough tier.
func (h *H) Pick(q, th int) int {
	if h.Thorough() {
		return th
	}
	return q
}

// Mix derives a deterministic 64-bit value from the seed, shard and a label.
func (h *H) Mix(label string) uint64 {
	f := fnv.New64a()
	fmt.Fprintf(f, "%d/%d/%s/%s/%s", h.Seed, h.Shard, h.Prop, h.Leg, label)
	return splitmix(f.Sum64())
}

func splitmix(x uint64) uint64 {
	x += 0x9e3779b97f4a7c15
	x = (x ^ (x >> 30)) * 0xbf58476d1ce4e5b9
	x = (x ^ (x >> 27)) * 0x94d049bb133111eb
	return x ^ (x >> 31)
}

// RNG is a tiny deterministic generator for the places where an enumerator
// wants pseudo-random extras that are a pure function of the seed.
type RNG struct{ s uint64 }

func (h *H) RNG(label string) *RNG { return &RNG{s: h.Mix(label)} }
func NewRNG(seed uint64) *RNG      { return &RNG{s: seed} }
func (r *RNG) Uint64() uint64      { r.s += 0x9e3779b97f4a7c15; return splitmix(r.s) }
func (r *RNG) Intn(n int) int {
	if n <= 0 {
		return 0
	}
	return int(r.Uint64() % uint64(n))
}

// Note records a free-text note for the evidence file.
func (h *H) Note(format string, args ...any) {
	h.mu.Lock()
	defer h.mu.Unlock()
	h.notes = append(h.notes, fmt.Sprintf(format, args...))
}

// Exhaustive marks this leg as having enumerated a finite space completely.
func (h *H) Exhaustive() { h.mu.Lock(); h.exhaust = true; h.mu.Unlock() }

// Obs collects what one case execution observed; it is merged into the
// statistics only if the run is not frozen (i.e. not while shrinking).
type Obs struct {
	NT      bool
	classes []string
	known   []string
	// NoTriage asks the interpreter to report the raw property verdict.
	NoTriage bool
	// step, when set, is called by Step (interleaved execution of two cases).
	step func()
	// retained holds the re-validation closures registered with Retain.
	retained []func() string
}

// Retain registers f, which must re-validate results that the case obtained
// from the code under test and keeps (a returned string, slice or iterator
// snapshot compared with a copy taken at once).  The kit calls f after the
// NEXT case has run in the same thread: a result that lives in memory the
// library recycles (a pooled buffer handed out without copying) is intact
// when it is first checked and changes only when a later call reuses the
// memory.  f returns "" when everything is as it was.
func (o *Obs) Retain(f func() string) {
	if o != nil {
		o.retained = append(o.retained, f)
	}
}

// Retained runs the closures registered with Retain and returns the first complaint.
func (o *Obs) Retained() string {
	if o == nil {
		return ""
	}
	for _, f := range o.retained {
		if m := Guard(f); m != "" {
			return m
		}
	}
	return ""
}

// Step marks a point between two operations of a case.  Interpreters call it
// once per operation; it does nothing unless the kit is running two cases in
// alternation (see Interleave), in which case the other case now performs its
// next operation.
func (o *Obs) Step() {
	if o != nil && o.step != nil {
		o.step()
	}
}

// Interleave runs f0 and f1 in strict alternation: each runs until its next
// Obs.Step, then the other continues, and so on until both have returned (one
// that returns lets the other run freely).  Only one of them executes at any
// time, so the effect is that of ONE goroutine working with two sets of live
// objects at once: state that the code under test shares between its
// instances (a pool, a free list, a package-level cache) can leak from one
// case into the other, while a correct library keeps them independent and
// both return what they return alone.
func Interleave(f0, f1 func(o *Obs) string) (string, string) {
	// f1 runs as a coroutine (iter.Pull switches to it directly, on the same
	// thread, without going through the scheduler): per-P state such as a
	// sync.Pool's private slot is therefore really shared by the two cases.
	var m0, m1 string
	next, stop := iter.Pull(func(yield func(struct{}) bool) {
		stopped := false
		m1 = Guard(func() string {
			return f1(&Obs{step: func() {
				if !stopped && !yield(struct{}{}) {
					stopped = true
				}
			}})
		})
	})
	defer stop()
	live := true
	m0 = Guard(func() string {
		return f0(&Obs{step: func() {
			if live {
				_, live = next()
			}
		}})
	})
	for live {
		_, live = next()
	}
	return m0, m1
}

// KnownIDs returns the known-finding ids this case was attributed to.
func (o *Obs) KnownIDs() []string { return o.known }

// Classes returns the labels recorded so far (for enumerators that tally themselves).
func (o *Obs) Classes() []string { return o.classes }

// AddObs folds one case's observation into the tally.
func (t *Tally) AddObs(o *Obs) {
	t.Evals++
	if o.NT {
		t.NT++
	}
	seen := map[string]bool{}
	for _, c := range o.classes {
		if !seen[c] {
			seen[c] = true
			t.Classes[c]++
		}
	}
}

func (o *Obs) Class(name string) { o.classes = append(o.classes, name) }
func (o *Obs) ClassIf(c bool, n string) {
	if c {
		o.classes = append(o.classes, n)
	}
}
func (o *Obs) Known(id string) { o.known = append(o.known, id) }
func (o *Obs) NonTrivial()     { o.NT = true }

const maxSampleBytes = 3000

// record merges one executed case into the statistics.
func (h *H) record(js []byte, o *Obs) {
	if h.frozen.Load() {
		return
	}
	hash := hashBytes(js)
	h.mu.Lock()
	defer h.mu.Unlock()
	h.evals++
	seen := map[string]bool{}
	for _, c := range o.classes {
		if !seen[c] {
			seen[c] = true
			h.classes[c]++
		}
	}
	for _, k := range o.known {
		h.known[k]++
	}
	if o.NT {
		h.nt[hash] = struct{}{}
		h.classes["nontrivial"]++
	}
	if len(js) <= maxSampleBytes {
		h.offerSample(sample{hash: hash, nt: o.NT, js: append(json.RawMessage(nil), js...)})
	}
}

// offerSample keeps up to 4 samples: non-trivial ones are preferred, ties are
// broken by smallest hash (a deterministic, seed-independent uniform pick).
func (h *H) offerSample(s sample) {
	const keep = 4
	h.samples = append(h.samples, s)
	sort.SliceStable(h.samples, func(i, j int) bool {
		a, b := h.samples[i], h.samples[j]
		if a.nt != b.nt {
			return a.nt
		}
		return a.hash < b.hash
	})
	if len(h.samples) > keep {
		h.samples = h.samples[:keep]
	}
}

func hashBytes(b []byte) uint64 {
	f := fnv.New64a()
	f.Write(b)
	return f.Sum64()
}

// Tally is the cheap path for exhaustive enumerators: the cases are distinct
// by construction, so only counters are kept.  sampleFn is called rarely.
type Tally struct {
	Evals, NT int64
	Classes   map[string]int64
}

func NewTally() *Tally { return &Tally{Classes: map[string]int64{}} }

// MergeTally adds an enumerator's counters (distinct by construction).
func (h *H) MergeTally(t *Tally) {
	h.mu.Lock()
	defer h.mu.Unlock()
	h.evals += t.Evals
	h.ntPlain += t.NT
	for k, v := range t.Classes {
		h.classes[k] += v
	}
	if t.NT > 0 {
		h.classes["nontrivial"] += t.NT
	}
}

// Sample offers one case (any JSON-able value) as an evidence sample.
func (h *H) Sample(c any, nt bool) {
	js, err := Marshal(c)
	if err != nil || len(js) > maxSampleBytes {
		return
	}
	h.mu.Lock()
	defer h.mu.Unlock()
	h.offerSample(sample{hash: hashBytes(js), nt: nt, js: js})
}

// KnownHit counts an occurrence of a known finding.
func (h *H) KnownHit(id string, n int64) {
	h.mu.Lock()
	h.known[id] += n
	h.mu.Unlock()
}

// Count adds n to a class counter directly.
func (h *H) Count(class string, n int64) {
	h.mu.Lock()
	h.classes[class] += n
	h.mu.Unlock()
}

// Fail records a violation for case c (smallest failing case wins) and
// freezes the statistics.  It returns the replay path.
func (h *H) Fail(c any, msg string) string {
	js, err := Marshal(c)
	if err != nil {
		js = []byte(fmt.Sprintf("%q", fmt.Sprint(c)))
	}
	h.frozen.Store(true)
	h.mu.Lock()
	defer h.mu.Unlock()
	if h.bestCase == nil || len(js) < h.bestSize {
		h.bestCase, h.bestSize, h.bestMsg = js, len(js), msg
		h.bestCtx = append([][]byte(nil), h.recent...)
		h.bestPar, h.bestMode, h.ctxUsed = h.pendPar, h.pendMode, h.pendCtx
		h.writeReplayLocked()
	}
	return h.replayPath()
}

const recentKeep = 48

// remember appends one executed case to the ring of recent cases.
func (h *H) remember(js []byte) {
	if len(js) > 1<<20 {
		js = []byte("null")
	}
	h.mu.Lock()
	if len(h.recent) >= recentKeep {
		copy(h.recent, h.recent[1:])
		h.recent = h.recent[:recentKeep-1]
	}
	h.recent = append(h.recent, append([]byte(nil), js...))
	h.mu.Unlock()
}

func (h *H) replayPath() string {
	return filepath.Join(h.ReplayTo, fmt.Sprintf("%s-%s-%s-seed%d-shard%d.json", h.Prop, h.Leg, h.Tier, h.Seed, h.Shard))
}

func (h *H) writeReplayLocked() {
	rf := ReplayFile{Property: h.Prop, Leg: h.Leg, Tier: h.Tier, Seed: h.Seed, Message: h.bestMsg, Case: h.bestCase, Context: h.ctxUsed, Note: h.ctxNote, Par: h.bestPar, Mode: h.bestMode, Patience: h.patience}
	b, _ := json.MarshalIndent(rf, "", " ")
	os.MkdirAll(h.ReplayTo, 0o755)
	os.WriteFile(h.replayPath(), append(b, '\n'), 0o644)
}

// noteCaseTime keeps the duration of the slowest case (margin to the watchdog).
func (h *H) noteCaseTime(d time.Duration) {
	ms := d.Milliseconds()
	h.mu.Lock()
	if ms > h.classes["max_case_ms"] {
		h.classes["max_case_ms"] = ms
	}
	h.mu.Unlock()
}

// Failed reports whether a violation has been recorded.
func (h *H) Failed() bool { return h.frozen.Load() }

// Flush writes stats.json and nt.bin.  Safe to call more than once.
func (h *H) Flush() {
	h.mu.Lock()
	defer h.mu.Unlock()
	if h.bestCase != nil && len(h.viol) == 0 {
		h.viol = append(h.viol, Violation{Message: h.bestMsg, Replay: h.replayPath()})
	}
	type out struct {
		Property    string            `json:"property"`
		Leg         string            `json:"leg"`
		Tier        string            `json:"tier"`
		Seed        uint64            `json:"seed"`
		Shard       int               `json:"shard"`
		Evaluations int64             `json:"evaluations"`
		NTHashed    int               `json:"nt_hashed"`
		NTPlain     int64             `json:"nt_plain"`
		Classes     map[string]int64  `json:"classes"`
		Known       map[string]int64  `json:"known_hits"`
		Samples     []json.RawMessage `json:"samples"`
		Violations  []Violation       `json:"violations"`
		Notes       []string          `json:"notes"`
		Exhaustive  bool              `json:"exhaustive"`
	}
	o := out{Property: h.Prop, Leg: h.Leg, Tier: h.Tier, Seed: h.Seed, Shard: h.Shard,
		Evaluations: h.evals, NTHashed: len(h.nt), NTPlain: h.ntPlain, Classes: h.classes,
		Known: h.known, Violations: h.viol, Notes: h.notes, Exhaustive: h.exhaust}
	for _, s := range h.samples {
		o.Samples = append(o.Samples, s.js)
	}
	os.MkdirAll(h.OutDir, 0o755)
	b, _ := json.MarshalIndent(o, "", " ")
	os.WriteFile(filepath.Join(h.OutDir, "stats.json"), b, 0o644)
	buf := make([]byte, 0, 8*len(h.nt))
	for k := range h.nt {
		buf = binary.LittleEndian.AppendUint64(buf, k)
	}
	os.WriteFile(filepath.Join(h.OutDir, "nt.bin"), buf, 0o644)
	h.flushed = true
}

// ---------------------------------------------------------------------------
// Per-case guard: panic capture + CPU-time watchdog.

type curCase struct {
	seq   atomic.Int64
	mu    sync.Mutex
	c     any
	start time.Time
	cpu   time.Duration
}

func cpuTime() time.Duration {
	var ru syscall.Rusage
	if err := syscall.Getrusage(syscall.RUSAGE_SELF, &ru); err != nil {
		return 0
	}
	return time.Duration(ru.Utime.Nano() + ru.Stime.Nano())
}

// Slot returns a watchdog slot for one worker goroutine.
func (h *H) Slot() *curCase {
	cc := &curCase{}
	h.mu.Lock()
	h.cur = append(h.cur, cc)
	h.mu.Unlock()
	return cc
}

// Enter marks the start of a case on this slot; Leave marks its end.
func (cc *curCase) Enter(c any) {
	cc.mu.Lock()
	cc.c, cc.start, cc.cpu = c, time.Now(), cpuTime()
	cc.mu.Unlock()
	cc.seq.Add(1)
}
func (cc *curCase) Leave() {
	cc.mu.Lock()
	cc.c = nil
	cc.mu.Unlock()
	cc.seq.Add(1)
}

// Watchdog thresholds.  A case of any leg costs milliseconds of CPU; a case
// that is still running after 60 s of wall time during which this process
// burned more than 20 s of CPU is not going to return.  (Wall time alone is
// never used: a frozen VM or a starved machine burns no CPU in this process.)
const (
	hangWall = 60 * time.Second
	hangCPU  = 45 * time.Second
)

func (h *H) startWatch() {
	stop := make(chan struct{})
	h.watchStop = stop
	go func() {
		tk := time.NewTicker(500 * time.Millisecond)
		defer tk.Stop()
		for {
			select {
			case <-stop:
				return
			case <-tk.C:
			}
			h.mu.Lock()
			slots := append([]*curCase(nil), h.cur...)
			pat := time.Duration(max(h.patience, 1))
			h.mu.Unlock()
			now, cpu := time.Now(), cpuTime()
			for _, cc := range slots {
				cc.mu.Lock()
				c, st, c0 := cc.c, cc.start, cc.cpu
				cc.mu.Unlock()
				if c == nil || now.Sub(st) < pat*hangWall || cpu-c0 < pat*hangCPU {
					continue
				}
				msg := fmt.Sprintf("operation did not return: case still running after %v wall / %v CPU (cases of this leg cost milliseconds)", now.Sub(st).Round(time.Second), (cpu - c0).Round(time.Second))
				p := h.Fail(c, msg)
				h.Flush()
				fmt.Printf("VK-HANG property=%s leg=%s replay=%s\n", h.Prop, h.Leg, p)
				os.Exit(1)
			}
		}
	}()
}

func (h *H) stopWatch() {
	if h.watchStop != nil {
		close(h.watchStop)
		h.watchStop = nil
	}
}

// Guard runs f, converting a panic into a violation message.
func Guard(f func() string) (msg string) {
	defer func() {
		if r := recover(); r != nil {
			st := string(debug.Stack())
			// keep the interesting part of the stack short
			lines := strings.Split(st, "\n")
			if len(lines) > 24 {
				lines = lines[:24]
			}
			msg = fmt.Sprintf("unexpected panic: %v\n%s", r, strings.Join(lines, "\n"))
		}
	}()
	return f()
}

// PanicValue runs f and returns the recovered panic value (nil if none).
func PanicValue(f func()) (r any) {
	defer func() { r = recover() }()
	f()
	return nil
}

// ---------------------------------------------------------------------------
// rapid-driven legs.

// RunFunc interprets a case against the real code and its oracle and returns
// "" or a violation message.
type RunFunc[C any] func(c C, o *Obs) string

type legEntry struct {
	replay func(raw json.RawMessage, noTriage bool) (string, error)
	// runObs runs the decoded case with the given observer (interleaved replays)
	runObs func(raw json.RawMessage, o *Obs) (string, error)
}

var (
	regMu sync.Mutex
	reg   = map[string]legEntry{}
)

// Register makes run available to the replay entry point under (prop, leg).
func Register[C any](prop, leg string, run RunFunc[C]) {
	regMu.Lock()
	defer regMu.Unlock()
	reg[prop+"/"+leg] = legEntry{replay: func(raw json.RawMessage, noTriage bool) (string, error) {
		var c C
		if err := Unmarshal(raw, &c); err != nil {
			return "", err
		}
		o := &Obs{NoTriage: noTriage}
		return Guard(func() string { return run(c, o) }), nil
	}, runObs: func(raw json.RawMessage, o *Obs) (string, error) {
		var c C
		if err := Unmarshal(raw, &c); err != nil {
			return "", err
		}
		return Guard(func() string { return run(c, o) }), nil
	}}
}

// Rare reports true for about one case in n.  (rapid draws small integers far
// more often than 1/n, so "IntRange(0, n-1) == 0" is not a rare event; the
// hash of a drawn 64-bit value is spread evenly.)
func Rare(t *rapid.T, label string, n int) bool {
	h := uint64(0x9e3779b97f4a7c15)
	for _, b := range rapid.SliceOfN(rapid.Byte(), 6, 6).Draw(t, label) {
		h = splitmix(h ^ uint64(b))
	}
	return h%uint64(n) == 0
}

// Rapid drives run with cases drawn by gen.  The number of cases comes from
// -rapid.checks, the seed from -rapid.seed (both set by the driver).
func Rapid[C any](h *H, t *testing.T, gen func(*rapid.T) C, run RunFunc[C]) {
	slot := h.Slot()
	defer func() {
		if h.Failed() {
			confirmReplay(h, run)
		}
	}()
	parEvery := envInt("VK_PAR_EVERY", 8)
	n, interleaved := 0, 0
	var prev, stickyPartner, stickyRetain *C
	var prevObs *Obs
	stickyPar := false
	var recentCs, stickyGroup []C // the last parWidth-1 passing cases; the partners of a par failure
	var parGroup []json.RawMessage
	defer func() { h.Count("also_interleaved_with_the_previous_case", int64(interleaved)) }()
	rapid.Check(t, func(rt *rapid.T) {
		c := gen(rt)
		o := &Obs{}
		slot.Enter(c)
		t0 := time.Now()
		msg := Guard(func() string { return run(c, o) })
		h.noteCaseTime(time.Since(t0))
		par := 0
		n++
		// (once a failure has been seen in one of the two extra modes, every later
		// call - rapid is shrinking - runs in that mode, with the same partner)
		if msg == "" && (stickyPar || parEvery > 0 && n%parEvery == 0 && !h.frozen.Load()) {
			// Independent instances: the same case on parWidth goroutines at once,
			// each building its own containers.  Instances of a container type
			// share nothing a caller can see, so every one of them must pass;
			// package-level state in the library (a pool, a clock, a cache
			// shared by all instances) shows up here.
			group := []C{c}
			if stickyGroup != nil {
				group = append(group, stickyGroup...)
			} else if n%(2*parEvery) == 0 {
				group = append(group, recentCs...) // different cases side by side
			}
			if m := runPar(run, group...); m != "" {
				msg, par, stickyPar = m, max(len(group), parWidth), true
				if stickyGroup == nil {
					stickyGroup = append([]C{}, group[1:]...)
				}
				parGroup = nil
				for _, g := range group[1:] {
					b, _ := Marshal(g)
					parGroup = append(parGroup, b)
				}
			}
		}
		mode := ""
		var partner []byte
		if msg == "" && (stickyRetain != nil || prevObs != nil && len(prevObs.retained) > 0) {
			// results the previous case retained must have survived this case
			po, pcase := prevObs, prev
			if stickyRetain != nil {
				// shrinking: run the partner afresh, then this case again, then look
				pcase = stickyRetain
				po = &Obs{}
				if m := Guard(func() string { return run(*pcase, po) }); m == "" {
					Guard(func() string { return run(c, &Obs{}) })
				} else {
					po = nil
				}
			}
			if po != nil {
				if m := po.Retained(); m != "" {
					msg = m + "\n[a result obtained and verified by context[0] was found changed after this case had run: the library handed out memory it went on using]"
					mode = "retain"
					partner, _ = Marshal(*pcase)
					if stickyRetain == nil {
						pc := *pcase
						stickyRetain = &pc
					}
				}
			}
		}
		if msg == "" && !stickyPar && stickyRetain == nil && (stickyPartner != nil || parEvery > 0 && n%4 == 2 && prev != nil && !h.frozen.Load()) {
			// Two live sets of objects in ONE thread of control: this case and the
			// previous one (which passed on its own) alternate operation by operation.
			pc := *prev
			if stickyPartner != nil {
				pc = *stickyPartner
			}
			ma, mb := Interleave(func(o *Obs) string { return run(pc, o) }, func(o *Obs) string { return run(c, o) })
			if m := ma + mb; m != "" {
				which := "this case"
				if mb == "" {
					which = "the other case (context[0])"
				}
				msg = m + "\n[seen in " + which + " while it alternated, operation by operation in one thread of control, with the other case of the replay file; each passes on its own]"
				mode = "interleave"
				partner, _ = Marshal(pc)
				stickyPartner = &pc
			}
			interleaved++
		}
		slot.Leave()
		js, _ := Marshal(c)
		if msg != "" {
			// how this very failure came about; Fail adopts it if the case becomes
			// the smallest failing one
			h.mu.Lock()
			h.pendPar, h.pendMode, h.pendCtx = 0, "", nil
			if par > 0 {
				h.pendPar, h.pendMode, h.pendCtx = par, "par", parGroup
			}
			if mode != "" {
				h.pendMode, h.pendCtx = mode, []json.RawMessage{partner}
			}
			h.mu.Unlock()
			p := h.Fail(c, msg)
			h.remember(js)
			rt.Fatalf("VK-VIOLATION property=%s leg=%s replay=%s\n%s", h.Prop, h.Leg, p, msg)
		}
		h.remember(js)
		cc := c
		prev, prevObs = &cc, o
		if recentCs = append(recentCs, cc); len(recentCs) > parWidth-1 {
			recentCs = recentCs[1:]
		}
		if !h.frozen.Load() {
			h.record(js, o)
			if parEvery > 0 && n%parEvery == 0 {
				h.Count("also_run_on_4_goroutines_at_once", 1)
			}
		}
	})
}

const parWidth = 4

// runPar runs the cases on as many goroutines at the same time (the first is
// the case under test, the others are earlier cases that passed) and returns
// the first failure.  With one case it runs parWidth copies of it.
func runPar[C any](run RunFunc[C], cs ...C) string {
	if len(cs) == 1 {
		for len(cs) < parWidth {
			cs = append(cs, cs[0])
		}
	}
	msgs := make([]string, len(cs))
	var wg sync.WaitGroup
	start := make(chan struct{})
	for g := range cs {
		wg.Add(1)
		go func(g int) {
			defer wg.Done()
			<-start
			msgs[g] = Guard(func() string { return run(cs[g], &Obs{}) })
		}(g)
	}
	close(start)
	wg.Wait()
	for g, m := range msgs {
		if m != "" {
			which := "this case"
			if g > 0 {
				which = fmt.Sprintf("context case %d", g-1)
			}
			return m + fmt.Sprintf("\n[seen in %s while %d goroutines each ran a case of their own at the same time, on their own instances; alone every one of them passed]", which, len(cs))
		}
	}
	return ""
}

// confirmReplay checks, in this process, that the recorded failing case fails
// when it is decoded from its JSON and run on its own, the way the replay
// entry will run it.  If it does not (the failure needed state that earlier
// cases left behind in the code under test), the cases executed before it are
// added to the replay file as context, provided that makes it fail again.
func confirmReplay[C any](h *H, run RunFunc[C]) {
	h.mu.Lock()
	best, ctx, mode := h.bestCase, h.bestCtx, h.bestMode
	h.mu.Unlock()
	if best == nil || mode != "" {
		return // interleaved failures carry their partner case already
	}
	exec := func(raw []byte) string {
		var c C
		if Unmarshal(raw, &c) != nil {
			return ""
		}
		done := make(chan string, 1)
		go func() {
			done <- Guard(func() string { return run(c, &Obs{}) })
		}()
		select {
		case m := <-done:
			return m
		case <-time.After(2 * hangWall):
			return "operation did not return"
		}
	}
	settle := func() { runtime.GC(); runtime.GC() } // empties sync.Pools
	settle()
	if exec(best) != "" {
		return // fails on its own
	}
	settle()
	for _, raw := range ctx {
		exec(raw)
	}
	again := exec(best)
	h.mu.Lock()
	defer h.mu.Unlock()
	if again != "" {
		for _, raw := range ctx {
			h.ctxUsed = append(h.ctxUsed, json.RawMessage(raw))
		}
		h.ctxNote = "the case fails only after the context cases have run in the same process (state left behind in the code under test)"
	} else {
		h.ctxNote = "the case failed during the run but neither alone nor after the preceding cases when tried again in the same process: it depends on state this file does not capture"
	}
	h.writeReplayLocked()
}

// One runs a single non-rapid case (exhaustive enumerators with few, large
// cases use this; for millions of tiny cases use Tally + Slot directly).
func One[C any](h *H, slot *curCase, c C, run RunFunc[C]) (msg string) {
	o := &Obs{}
	slot.Enter(c)
	msg = Guard(func() string { return run(c, o) })
	slot.Leave()
	if msg != "" {
		h.Fail(c, msg)
		return msg
	}
	js, _ := Marshal(c)
	h.record(js, o)
	return ""
}

// Parallel runs body(worker, i) for i in [0,n) on w goroutines (strided).
// It stops early once a violation has been recorded.
func Parallel(h *H, n int, body func(worker, i int)) {
	w := runtime.GOMAXPROCS(0)
	if w > n {
		w = n
	}
	if w < 1 {
		w = 1
	}
	var wg sync.WaitGroup
	for k := 0; k < w; k++ {
		wg.Add(1)
		go func(k int) {
			defer wg.Done()
			for i := k; i < n; i += w {
				if h.Failed() {
					return
				}
				body(k, i)
			}
		}(k)
	}
	wg.Wait()
}

// Workers reports the number of goroutines Parallel uses for n items.
func Workers(n int) int {
	w := runtime.GOMAXPROCS(0)
	if w > n {
		w = n
	}
	if w < 1 {
		w = 1
	}
	return w
}

// ReplayMain is the body of each package's TestReplay.
func ReplayMain(t *testing.T) {
	path := os.Getenv("VK_REPLAY")
	if path == "" {
		t.Skip("VK_REPLAY not set")
	}
	b, err := os.ReadFile(path)
	if err != nil {
		t.Fatalf("VK-INFRA cannot read replay: %v", err)
	}
	var rf ReplayFile
	if err := json.Unmarshal(b, &rf); err != nil {
		t.Fatalf("VK-INFRA cannot parse replay: %v", err)
	}
	regMu.Lock()
	e, ok := reg[rf.Property+"/"+rf.Leg]
	regMu.Unlock()
	if !ok {
		t.Fatalf("VK-INFRA no leg %s/%s in this package", rf.Property, rf.Leg)
	}
	done := make(chan struct{})
	var msg string
	var rerr error
	go func() {
		defer close(done)
		// A failure that needs the context depends on state such as a
		// sync.Pool, which the runtime may drop at any time: try a few times.
		attempts := 1
		if len(rf.Context) > 0 {
			attempts = 6
		}
		if rf.Par > 1 {
			attempts = 40 // schedule-dependent
		}
		if rf.Mode == "retain" && len(rf.Context) > 0 {
			for a := 0; a < 3 && msg == "" && rerr == nil; a++ {
				o0 := &Obs{}
				if m, err := e.runObs(rf.Context[0], o0); err != nil || m != "" {
					msg, rerr = m, err
					return
				}
				if _, err := e.runObs(rf.Case, &Obs{}); err != nil {
					rerr = err
					return
				}
				msg = o0.Retained()
			}
			return
		}
		if rf.Mode == "interleave" && len(rf.Context) > 0 {
			for a := 0; a < 3 && msg == "" && rerr == nil; a++ {
				var e0, e1 error
				m0, m1 := Interleave(
					func(o *Obs) string { m, err := e.runObs(rf.Context[0], o); e0 = err; return m },
					func(o *Obs) string { m, err := e.runObs(rf.Case, o); e1 = err; return m })
				msg = m0 + m1
				if e0 != nil {
					rerr = e0
				}
				if e1 != nil {
					rerr = e1
				}
			}
			return
		}
		for a := 0; a < attempts && msg == "" && rerr == nil; a++ {
			if rf.Mode != "par" {
				for _, raw := range rf.Context {
					e.replay(raw, true) // context: results ignored
				}
			}
			if rf.Par <= 1 {
				msg, rerr = e.replay(rf.Case, os.Getenv("VK_NOTRIAGE") == "1")
				continue
			}
			// rf.Par goroutines at once, each on its own instances: the case
			// itself and its partners (or copies of the case)
			raws := []json.RawMessage{rf.Case}
			if rf.Mode == "par" {
				raws = append(raws, rf.Context...)
			}
			for len(raws) < rf.Par {
				raws = append(raws, rf.Case)
			}
			ms, es := make([]string, len(raws)), make([]error, len(raws))
			var wg sync.WaitGroup
			for g := range ms {
				wg.Add(1)
				go func(g int) {
					defer wg.Done()
					ms[g], es[g] = e.replay(raws[g], os.Getenv("VK_NOTRIAGE") == "1")
				}(g)
			}
			wg.Wait()
			for g := range ms {
				if es[g] != nil {
					rerr = es[g]
				}
				if ms[g] != "" && msg == "" {
					msg = ms[g]
				}
			}
		}
	}()
	c0 := cpuTime()
	start := time.Now()
	tk := time.NewTicker(500 * time.Millisecond)
	defer tk.Stop()
wait:
	for {
		select {
		case <-done:
			break wait
		case <-tk.C:
			if pat := time.Duration(max(rf.Patience, 1)); time.Since(start) >= pat*hangWall && cpuTime()-c0 >= pat*hangCPU {
				msg = fmt.Sprintf("operation did not return (replay still running after %v wall)", time.Since(start).Round(time.Second))
				break wait
			}
		}
	}
	if rerr != nil {
		t.Fatalf("VK-INFRA cannot decode case: %v", rerr)
	}
	if msg != "" {
		first := msg
		if i := strings.IndexByte(first, '\n'); i >= 0 {
			first = first[:i]
		}
		fmt.Printf("VK-REPLAY-FAIL property=%s leg=%s :: %s\n", rf.Property, rf.Leg, first)
		t.Fatalf("replay reproduces the violation:\n%s", msg)
	}
	fmt.Printf("VK-REPLAY-PASS property=%s leg=%s\n", rf.Property, rf.Leg)
}

// ---------------------------------------------------------------------------
// Native fuzz targets (thorough tier).  The fuzz function runs in worker
// processes, so it does not use H; a violation is written as a replay file
// (smallest case per process wins) and reported with a VK-FUZZ-VIOLATION line.

var (
	fuzzMu   sync.Mutex
	fuzzBest = map[string]int{}
)

// FuzzCheck runs run on c inside a fuzz target and fails t on a violation.
func FuzzCheck[C any](t *testing.T, prop, leg string, c C, run RunFunc[C]) {
	o := &Obs{}
	msg := Guard(func() string { return run(c, o) })
	if msg == "" {
		return
	}
	js, _ := Marshal(c)
	dir := os.Getenv("VK_REPLAYDIR")
	if dir == "" {
		dir = os.TempDir()
	}
	path := filepath.Join(dir, fmt.Sprintf("%s-%s-fuzz-%d.json", prop, leg, os.Getpid()))
	fuzzMu.Lock()
	if best, ok := fuzzBest[path]; !ok || len(js) < best {
		fuzzBest[path] = len(js)
		rf := ReplayFile{Property: prop, Leg: leg, Tier: "thorough", Message: msg, Case: js}
		b, _ := json.MarshalIndent(rf, "", " ")
		os.MkdirAll(dir, 0o755)
		os.WriteFile(path, append(b, '\n'), 0o644)
	}
	fuzzMu.Unlock()
	t.Fatalf("VK-FUZZ-VIOLATION property=%s leg=%s replay=%s\n%s", prop, leg, path, msg)
}
