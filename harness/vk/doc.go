// Package vk is the shared kit of the verification harness.
package vk

import (
	_ "github.com/anishathalye/porcupine"
	_ "pgregory.net/rapid"
)
