"""Per-property configuration of the driver: legs (Go test functions), shard and
case counts per tier, and the text of the non-triviality rule that goes into the
evidence file."""


def rapid(name, pkg, test, qshards, qchecks, tshards, tchecks, **kw):
    d = {"name": name, "pkg": pkg, "test": test, "kind": "rapid",
         "shards": {"quick": qshards, "thorough": tshards},
         "checks": {"quick": qchecks, "thorough": tchecks}}
    d.update(kw)
    return d


def plain(name, pkg, test, **kw):
    d = {"name": name, "pkg": pkg, "test": test, "kind": "plain"}
    d.update(kw)
    return d


COMMON_ASSUME = [
    "the Go toolchain, runtime and pgregory.net/rapid v1.3.0 behave as documented",
    "the reference models / oracles in /verif/harness are themselves correct (they were validated by planted defects, see DESIGN.md)",
    "exploration only: the property held on the generated cases, nothing is proved",
]

PROPS = {}

PROPS["C01"] = {
    "legs": [rapid("hist", "pstree", "TestC01Hist", 8, 4000, 16, 40000)],
    "rule": "rapid draws a history as data (beta in {0,1,50,250,500,999,1000} or uniform 0..1000; unsorted, duplicated "
            "initial keys for New; <=60 ops among Add/Replace/Remove/Get/Clear/Clone/switch/Inorder(stop)/InorderAfter "
            "(present, absent, below min, above max) plus macro ops: ascending/descending/zig-zag runs, drains "
            "(min/max/median/scattered, to a fraction or to empty), two-child-node removal followed by successor "
            "lookup); the interpreter compares every result, Len/IsEmpty/Min/Max after every single operation and the "
            "full Inorder after every operation while Len<=64 (every 8th above) with a sorted reference set keyed on K "
            "with an observable Tag. A case is NON-TRIVIAL iff it contains a monotone run of >=8 inserts or a drain "
            "below half of the peak size, AND a removal of a node with two children followed by a lookup. Distinct = "
            "distinct canonical JSON of the case (64-bit hash), unioned over shards.",
    "assumptions": COMMON_ASSUME + ["the comparator is a valid total preorder on one struct key type"],
}

PROPS["C02"] = {
    "legs": [rapid("bound", "pstree", "TestC02Bound", 4, 400, 16, 5000),
             plain("newheight", "pstree", "TestC02NewHeights")],
    "rule": "leg bound: histories as in C01 plus an adaptive adversary op that inserts a fresh key directly beneath a "
            "deepest leaf (located by a cursor walk); beta in [0,999]; trees up to 2000 nodes; after EVERY single "
            "operation (each element of a run) the height is measured through Root/Left/Right/Up and "
            "2000^(d-1) <= P*(1000+beta)^(d-1) is checked in exact big-integer arithmetic (P = max Len since "
            "creation/Clear/last empty), and Get comparisons are counted with a counting comparator. NON-TRIVIAL iff "
            "the tree came within one level of its bound at some step, or a delete-side whole-tree rebuild happened "
            "(by a shadow of the documented rule, used for labelling only). leg newheight: New(n distinct keys) for "
            "every n up to a bound and beta in {0,250,999}: height == floor(log2 n); non-trivial = n is a power of "
            "two or one less.",
    "assumptions": COMMON_ASSUME,
}

PROPS["C03"] = {
    "legs": [rapid("cursor", "pstree", "TestC03Cursor", 4, 600, 16, 6000)],
    "rule": "a tree is built by a C01-style history (beta biased to 500/900/1000 so that skewed shapes occur; runs and "
            "adversarial deep inserts), then: (a) Cursor(key) for every key and for absent keys below/above/inside the "
            "range; (b) a structural recursion from Root using only Clone/Left/Right that reconstructs the shape and "
            "checks that every cursor's Inorder is a contiguous ascending window of the sorted set equal to "
            "Inorder(left)+key+Inorder(right), that Min/Max are the window ends, Left/Right-then-Up returns to the "
            "origin, HasLeft/HasRight/HasParent predict validity; (c) from every key (every 7th above 80 keys) the "
            "Next chain to the end and the Prev chain to the start with HasNext/HasPrev, staying invalid afterwards; "
            "(d) up to 60 random moves (left/right/up/min/max/next/prev/goto/clone/switch/inorder-with-stop) on two "
            "cursors tracked against the reconstructed shape, both cursors observed after every move (clone "
            "independence); (e) nil and invalidated cursors are no-ops yielding the zero key. NON-TRIVIAL iff the tree "
            "has height >= 4 and some node's successor is a proper ancestor >= 2 levels up. Distinct = hash of the case JSON.",
    "assumptions": COMMON_ASSUME,
}

PROPS["C04"] = {
    "legs": [rapid("hist", "pstree", "TestC04Hist", 4, 2500, 16, 25000)],
    "rule": "histories of <=50(+9) ops on two copies of one omap.Map value (ops alternate between the copies): "
            "Set/Delete/Clear/Get/GetOK on present, absent-below, absent-above and absent-inside keys; iterator "
            "programmes First/Last/Seek(k)/Iter.Seek(k) followed by Next/Prev walks, the documented "
            "delete-current-then-Seek idiom; comparators natural, reversed and k/2 (two-key equivalence classes); "
            "the zero Map (Set must panic, everything else behaves as an empty map). After every op: Len, Keys, "
            "String on both copies, a full First..Next and Last..Prev sweep, and the tracked iterator's "
            "IsValid/Key/Value against a sorted reference (an iterator is only used while no edit happened since it "
            "was positioned, as the package doc requires). NON-TRIVIAL iff a Seek to an absent key strictly inside the "
            "key range is followed by a Prev on a map that has seen a Delete. Distinct = hash of the case JSON.",
    "assumptions": COMMON_ASSUME + ["under the k/2 comparator only comparator-equivalence of reported keys is required, not which representative is stored"],
}

# Properties deliberately not claimed (reason shown in MANIFEST.not_applicable).
NOT_APPLICABLE = {}
