"""Per-property configuration of the driver: legs (Go test functions), shard and
case counts per tier, and the text of the non-triviality rule that goes into the
evidence file."""


def rapid(name, pkg, test, qshards, qchecks, tshards, tchecks, **kw):
    d = {"name": name, "pkg": pkg, "test": test, "kind": "rapid",
         "shards": {"quick": qshards, "thorough": tshards},
         "checks": {"quick": qchecks, "thorough": tchecks}}
    d.update(kw)
    return d


def plain(name, pkg, test, **kw):
    d = {"name": name, "pkg": pkg, "test": test, "kind": "plain"}
    d.update(kw)
    return d


COMMON_ASSUME = [
    "the Go toolchain, runtime and pgregory.net/rapid v1.3.0 behave as documented",
    "the reference models / oracles in /verif/harness are themselves correct (they were validated by planted defects, see DESIGN.md)",
    "exploration only: the property held on the generated cases, nothing is proved",
]

PROPS = {}

PROPS["C01"] = {
    "legs": [rapid("hist", "pstree", "TestC01Hist", 4, 1500, 16, 20000)],
    "rule": "rapid draws a history as data (beta in {0,1,50,250,500,999,1000} or uniform 0..1000; unsorted, duplicated "
            "initial keys for New; <=60 ops among Add/Replace/Remove/Get/Clear/Clone/switch/Inorder(stop)/InorderAfter "
            "(present, absent, below min, above max) plus macro ops: ascending/descending/zig-zag runs, drains "
            "(min/max/median/scattered, to a fraction or to empty), two-child-node removal followed by successor "
            "lookup); the interpreter compares every result, Len/IsEmpty/Min/Max after every single operation and the "
            "full Inorder after every operation while Len<=64 (every 8th above) with a sorted reference set keyed on K "
            "with an observable Tag. A case is NON-TRIVIAL iff it contains a monotone run of >=8 inserts or a drain "
            "below half of the peak size, AND a removal of a node with two children followed by a lookup. Distinct = "
            "distinct canonical JSON of the case (64-bit hash), unioned over shards.",
    "assumptions": COMMON_ASSUME + ["the comparator is a valid total preorder on one struct key type"],
}

PROPS["C02"] = {
    "legs": [rapid("bound", "pstree", "TestC02Bound", 4, 400, 16, 5000),
             plain("newheight", "pstree", "TestC02NewHeights")],
    "rule": "leg bound: histories as in C01 plus an adaptive adversary op that inserts a fresh key directly beneath a "
            "deepest leaf (located by a cursor walk); beta in [0,999]; trees up to 2000 nodes; after EVERY single "
            "operation (each element of a run) the height is measured through Root/Left/Right/Up and "
            "2000^(d-1) <= P*(1000+beta)^(d-1) is checked in exact big-integer arithmetic (P = max Len since "
            "creation/Clear/last empty), and Get comparisons are counted with a counting comparator. NON-TRIVIAL iff "
            "the tree came within one level of its bound at some step, or a delete-side whole-tree rebuild happened "
            "(by a shadow of the documented rule, used for labelling only). leg newheight: New(n distinct keys) for "
            "every n up to a bound and beta in {0,250,999}: height == floor(log2 n); non-trivial = n is a power of "
            "two or one less.",
    "assumptions": COMMON_ASSUME,
}

# Properties deliberately not claimed (reason shown in MANIFEST.not_applicable).
NOT_APPLICABLE = {}
