"""Per-property configuration of the driver: legs (Go test functions), shard and
case counts per tier, and the text of the non-triviality rule that goes into the
evidence file."""


def rapid(name, pkg, test, qshards, qchecks, tshards, tchecks, **kw):
    d = {"name": name, "pkg": pkg, "test": test, "kind": "rapid",
         "shards": {"quick": qshards, "thorough": tshards},
         "checks": {"quick": qchecks, "thorough": tchecks}}
    d.update(kw)
    return d


def fuzz(name, pkg, test, secs):
    return {"name": name, "pkg": pkg, "test": test, "kind": "fuzz", "fuzztime": secs, "tiers": ["thorough"], "solo": True}


def plain(name, pkg, test, **kw):
    d = {"name": name, "pkg": pkg, "test": test, "kind": "plain"}
    d.update(kw)
    return d


COMMON_ASSUME = [
    "the Go toolchain, runtime and pgregory.net/rapid v1.3.0 behave as documented",
    "the reference models / oracles in /verif/harness are themselves correct (they were validated by planted defects, see DESIGN.md)",
    "exploration only: the property held on the generated cases, nothing is proved",
]

PROPS = {}

PROPS["C01"] = {
    "legs": [rapid("hist", "pstree", "TestC01Hist", 8, 4000, 16, 600000)],
    "rule": "rapid draws a history as data (beta in {0,1,50,250,500,999,1000} or uniform 0..1000; unsorted, duplicated "
            "initial keys for New; <=60 ops among Add/Replace/Remove/Get/Clear/Clone/switch/Inorder(stop)/InorderAfter "
            "(present, absent, below min, above max) plus macro ops: ascending/descending/zig-zag runs (inserting through "
            "Add, through Replace, or alternating), drains "
            "(min/max/median/scattered, to a fraction or to empty), two-child-node removal followed by successor "
            "lookup); the interpreter compares every result, Len/IsEmpty/Min/Max after every single operation and the "
            "full Inorder after every operation while Len<=64 (every 8th above) with a sorted reference set keyed on K "
            "with an observable Tag. A case is NON-TRIVIAL iff it contains a monotone run of >=8 inserts or a drain "
            "below half of the peak size, AND a removal of a node with two children followed by a lookup. Distinct = "
            "distinct canonical JSON of the case (64-bit hash), unioned over shards. "
            "Macro op prune: remove every key (or every other key) that is not on the path from the root to a deepest leaf, so the size shrinks while the height stays. "
            "ELEMENT KINDS: about half of the cases instantiate the tree with the struct type Key; the others use int, string, an 88-byte comparable struct, *Cell (a new pointer per call, deeply equal pointees), any holding *Cell, or []byte. Elements are converted at the API boundary while the reference stays in ints. Where the kind carries an identity, the element held must be the very one supplied by the successful Add or latest Replace (a Get after each checks it). Probes (Get/Remove/Cursor arguments) are equivalent but not identical elements. For int and string, half of the cases use a comparison that is the reverse of the type's natural order. "
            "Iterations are also nested: a second InorderAfter / Inorder is started inside the loop body of an InorderAfter (run to its end or abandoned) and both must list what they list alone. "
            "RE-ENTRANT AND STORED ITERATION: iterations (Inorder, InorderAfter) run with loop bodies that make every call documented as non-mutating on the tree being iterated - Clone (also edited afterwards), Get, Len, IsEmpty, Min/Max, String, Cursor, Root, nested iterations - at the first, j-th, last or every element; the outer listing and the clone taken inside must equal the reference. Cursors are held across such calls. InorderAfter sequences and the method value t.Inorder are stored in slots (op seqKeep) and ranged later (op seqRange: completely, twice, partially then completely, stopped) after insert/remove runs and mass removals; since the documentation does not say whether such a sequence is a snapshot or a view, each pass must equal the reference >= k at creation OR at ranging time (the library gives the latter) - a mixture is a violation.",
    "assumptions": COMMON_ASSUME + ["the comparator is a valid total preorder on one struct key type"],
}

PROPS["C02"] = {
    "legs": [rapid("bound", "pstree", "TestC02Bound", 8, 1500, 16, 40000),
             plain("newheight", "pstree", "TestC02NewHeights"),
             plain("long", "pstree", "TestC02Long", shards={"quick": 4, "thorough": 8})],
    "rule": "leg bound: histories as in C01 plus an adaptive adversary op that inserts a fresh key directly beneath a "
            "deepest leaf (located by a cursor walk; through Add or Replace); beta in [0,999]; trees up to 2000 nodes; after EVERY single "
            "operation (each element of a run) the height is measured through Root/Left/Right/Up and "
            "2000^(d-1) <= P*(1000+beta)^(d-1) is checked in exact big-integer arithmetic (P = max Len since "
            "creation/Clear/last empty), and Get comparisons are counted with a counting comparator. NON-TRIVIAL iff "
            "the tree came within one level of its bound at some step, or a delete-side whole-tree rebuild happened "
            "(by a shadow of the documented rule, used for labelling only). leg newheight: New(n distinct keys) for "
            "every n up to a bound and beta in {0,250,999}: height == floor(log2 n); non-trivial = n is a power of "
            "two or one less. "
            "Element kinds as in C01 (the depth and comparison bounds are independent of the element type); the newheight leg adds one case per n cycling through the kinds. "
            "leg long (directed, sharded over processes): insertion-only trees of 5500..74000 keys (thorough: to 1.2 million) in ascending, descending, outside-in, inside-out, two-interleaved-runs and pseudo-random order at beta 0/250/999/one seeded value (strict factors only for the smaller sizes and loose ones only for the smallest: the library's own cost is quadratic there): after EVERY Add the depth of the key just inserted (Cursor(key), then Up to the root) must satisfy the same exact bound with P = Len, and every 4096 insertions the whole tree is measured. The scapegoat of a too-deep insertion into such a tree lies more than ten levels above the new leaf. The first cases of every shard - the first trees of the process - are 300-key trees made AFTER trees with other balance factors (a creation order picked by shard and seed from a table that includes beta = 1000): trees are independent of one another whatever the order they are made in. Non-trivial = at least 4096 keys and within one level of the bound at some checkpoint.",
    "assumptions": COMMON_ASSUME,
}

PROPS["C03"] = {
    "legs": [rapid("cursor", "pstree", "TestC03Cursor", 4, 1000, 16, 60000)],
    "rule": "a tree is built by a C01-style history (beta biased to 500/900/1000 so that skewed shapes occur; runs and "
            "adversarial deep inserts), then: (a) Cursor(key) for every key and for absent keys below/above/inside the "
            "range; (b) a structural recursion from Root using only Clone/Left/Right that reconstructs the shape and "
            "checks that every cursor's Inorder is a contiguous ascending window of the sorted set equal to "
            "Inorder(left)+key+Inorder(right), that Min/Max are the window ends, Left/Right-then-Up returns to the "
            "origin, HasLeft/HasRight/HasParent predict validity; (c) from every key (every 7th above 80 keys) the "
            "Next chain to the end and the Prev chain to the start with HasNext/HasPrev, staying invalid afterwards; "
            "(d) up to 60 random moves (left/right/up/min/max/next/prev/goto/clone/switch/inorder-with-stop) on two "
            "cursors tracked against the reconstructed shape, both cursors observed after every move (clone "
            "independence); (e) nil and invalidated cursors are no-ops yielding the zero key. NON-TRIVIAL iff the tree "
            "has height >= 4 and some node's successor is a proper ancestor >= 2 levels up. Distinct = hash of the case JSON. "
            "Element kinds as in C01; cursor probes carry a different identity from the stored key. "
            "Cursor.Inorder is also started again from inside its own loop body (two reads of one cursor). "
            "Move 'root' restarts one or both cursors from separate Tree.Root() calls. "
            "The inorder moves also range over the cursor's Inorder while the loop body moves the iterated cursor itself (or its Clone, or the original while the Clone is iterated) by 1-3 moves at the first, middle, last or every visit: the listing must be the subtree of the position at call time, and the cursors must end where the move model says.",
    "assumptions": COMMON_ASSUME,
}

PROPS["C04"] = {
    "legs": [rapid("hist", "pstree", "TestC04Hist", 4, 4000, 16, 300000),
             rapid("float", "pstree", "TestC04Float", 2, 2000, 8, 150000),
             rapid("str", "pstree", "TestC04Str", 2, 3000, 8, 150000),
             plain("deep", "pstree", "TestC04Deep")],
    "rule": "histories of <=50(+9) ops on two copies of one omap.Map value (ops alternate between the copies): "
            "Set/Delete/Clear/Get/GetOK on present, absent-below, absent-above and absent-inside keys; iterator "
            "programmes First/Last/Seek(k)/Iter.Seek(k) followed by Next/Prev walks, the documented "
            "delete-current-then-Seek idiom; comparators natural, reversed and k/2 (two-key equivalence classes); "
            "the zero Map (Set must panic, everything else behaves as an empty map). After every op: Len, Keys, "
            "String on both copies, a full First..Next and Last..Prev sweep, and the tracked iterator's "
            "IsValid/Key/Value against a sorted reference (an iterator is only used while no edit happened since it "
            "was positioned, as the package doc requires). NON-TRIVIAL iff a Seek to an absent key strictly inside the "
            "key range is followed by a Prev on a map that has seen a Delete. Three iterator slots are alive at the same "
            "time (every synchronised one is checked after every op); op staleProbe = Get(s), Delete a neighbour of s, "
            "Set(s,new), Get(s). leg float: omap.New[float64,int] (natural order) with keys NaN (two payloads), +-Inf, "
            "-0.0, 0.0 and ordinary values; Set/Delete/GetOK/Seek, Len, Keys and a First..Next sweep after every op against "
            "a reference ordered by cmp.Compare (NaN equals itself and sorts first, -0 equals +0); non-trivial = a NaN key "
            "was used in a history of >=4 ops. Distinct = hash of the case JSON. "
            "leg str: omap.Map[string,string] (New or NewFunc(strings.Compare), started from the zero Map in a quarter of the cases) over 20 hostile strings as keys AND values ('', ' ', ' a', 'a ', tab, 'b\\n', invalid UTF-8, CR, VT ...): Set/Delete/Get/GetOK/Seek/Last+Prev walk/Clear, and after every step Len, Keys, the First..Next iteration and String() == 'omap[' + the k:v pairs separated by one space + ']'; on the zero Map only the operations its documentation lists. NON-TRIVIAL (leg str) iff at some step the first key or the last value is empty or has outer white space. "
            "ELEMENT KINDS: leg hist also instantiates the key type with int, string, int16, an 88-byte struct, *Cell, any and []byte, using omap.New for the ordered ones when the comparison is the natural one and NewFunc otherwise; half of those cases put their keys at the ends of the key type's range (MinInt.., around 0, ..MaxInt, so that differences overflow). Value types: int, string, *Cell, *Label (pointer-receiver String method) and a struct that is both fmt.Formatter and fmt.Stringer; Sets sometimes store the zero value (nil pointer, empty string, 0) and sometimes a new value equal to the one held. Values are compared by identity where the kind has one, and String() must equal the %v:%v rendering of the same keys and values (a panic in String is a violation). "
            "leg deep: ONE map of 3.46 million int keys inserted in ascending order (thorough: also descending, 6 M, 1 M) - search paths of 33 nodes at omap's fixed balance factor; Seek of the key just inserted after each of the last 300 000 Sets, then GetOK / Seek / Next on the last, first and a spread of keys, First and Last. "
            "About one hist case in 12 ends with a 'spine' block: Clear, a sorted fill of 32..100 keys (either direction), deletion of all but the last few keys and a thinning sample of their ancestors, then Seek and Get of every survivor (the map is as deep as its peak size allowed).",
    "assumptions": COMMON_ASSUME + ["under the k/2 comparator only comparator-equivalence of reported keys is required, not which representative is stored"],
}

HEAP_TRIAGE = ("Known findings F1 (sift-up through slot i/2) and F2 (no sift-up after interior removal) are handled as in "
               "DESIGN.md 2.1: every case computes exposure predicates (F1: an Add that is neither a new maximum nor lands "
               "in slot 2^k-1; F2: Remove(i) with 3<=i<last on >=6 elements); an unexposed case is checked strictly; in an "
               "exposed case a failure of the minimality clause is attributed to the finding only if an executable "
               "deviation model of the documented heap algorithm ({F1},{F2},{F1,F2}), run in lockstep, reproduces the "
               "queue's array order after every operation; every other clause is strict always.")

PROPS["C05"] = {
    "legs": [rapid("hist", "pheap", "TestC05Hist", 4, 5000, 16, 150000),
             rapid("sort", "pheap", "TestC05Sort", 1, 3000, 4, 150000),
             plain("sortx", "pheap", "TestC05SortExhaustive", solo=True)],
    "rule": "leg hist: constructor New or NewWithData (arbitrary data, spare capacity), both comparison directions, "
            "<=60(+20) ops among Add, Pop, Front, Peek(i) incl. out of range and negative (must panic), Remove(i) "
            "anywhere, Set, Reorder (direction change in mid-life), Clear, Each (with early stop), Update on/off, "
            "partial drains, final drain to empty; elements are (value, unique id) ordered by value only, values mostly "
            "in 0..3 (many duplicates). Generator modes: A (no Add, removal only at offset 0/last), B (Adds that cannot "
            "swap through an even slot, safe removals), G (everything). After every op: Len/IsEmpty, Each and "
            "Peek(0..Len-1) each enumerate exactly the held identities, Remove(i) returns what Peek(i) showed, Pop/Front "
            "return a held element that is minimal under the current comparison, drains are non-decreasing. " + HEAP_TRIAGE +
            " NON-TRIVIAL iff >=3 heap levels were populated and an interior Remove / Set / mid-life Reorder was followed "
            "by >=3 Pops. Legs sort/sortx: heapq.Sort on random slices and on every sequence over {0,1,2} up to length "
            "8 (quick) / 11 (thorough), both directions: output sorted and a permutation by identity; non-trivial = "
            "length>=4 with duplicates. Distinct = hash of the case JSON (rapid legs) / distinct by construction (sortx). "
            "Value vectors for Set / NewWithData / Sort are independent values (half of the cases) or ordered along the parent links (i-1)/2 (already a heap), along the wrong links i/2, sorted, or constant, each in either direction. "
            "ELEMENT KINDS (the library is generic, so the property must hold for every instantiation; a change that special-cases a type through a type switch, reflect, unsafe.Sizeof, DeepEqual or fmt is only visible this way): half of the cases run the queue / Sort on the harness's own (value,id) struct; the rest instantiate Queue[T] and Sort[T] with int (no identity: conservation as a multiset of values), string, an 88-byte comparable struct, fresh *Cell pointers (every Add/Set supplies a NEW pointer, also for a value already held; op setSame re-Sets the current values slot by slot), []byte, and any holding *Cell. The reference model stays in ints, 'held' means the very element handed in (Kit.Same), class elem=<kind>. The exhaustive Sort leg runs every sequence on the own struct plus one further kind cycling with the case index. "
            "The each op also starts a second Each inside the callback of the first. "
            "One NewWithData case in 25 hands over a buffer with 65 536..131 073 elements of spare capacity (the documented preallocation idiom).",
    "assumptions": COMMON_ASSUME + ["a defect whose symptoms coincide with a deviation model of F1/F2 on every generated history would be filed under the known finding"],
}

PROPS["C06"] = {
    "legs": [rapid("pos", "pheap", "TestC06Pos", 4, 5000, 16, 50000),
             plain("bigpos", "pheap", "TestC06BigPos")],
    "rule": "histories as C05 (mode G) with an update callback installed that records the last reported position per "
            "element id; extra ops: removeElem (Remove at the recorded position of a chosen tracked element must return "
            "exactly that element), Update(nil)/re-install phases (after removal of the callback no call may arrive; "
            "tracking restarts from the next report). After every op, for each held element that has been reported: "
            "Peek(lastReported) is that element; Add returns the reported position of the new element; Set reports every "
            "new element. Elements loaded by NewWithData are exempt until first reported. NON-TRIVIAL iff an element "
            "that had moved >=2 times was removed through its recorded position. Order failures met on the way are "
            "routed through the C05 triage. Distinct = hash of the case JSON. "
            "Element kinds as C05. For kind int, which has no identities, the clause is checked by position: the last report naming each live position must name the value found there, Add's return and Set's reports likewise, and removeElem goes through a reported position; such cases are never counted non-trivial. "
            "leg bigpos: heaps of 3 M and 2^21+5 distinct ints (thorough: up to 2^24) with an update function: Set(0..N-1) in ascending or descending order, then Pops (sinks across 21+ levels); after every operation the last reported position of EVERY element must be its offset in Each and Pop must return the minimum (only Set and Pop are used: they never take the paths of known findings F1/F2).",
    "assumptions": COMMON_ASSUME,
}

PROPS["C07"] = {
    "legs": [rapid("hist", "pqueue", "TestC07Hist", 4, 4000, 16, 60000),
             plain("exh", "pqueue", "TestC07Exh", solo=True)],
    "rule": "leg hist: rapid draws a history as data: constructor in {zero value, New(), NewSize(n), n in 0..17}; <=76 random "
            "ops among Add, Push, Pop, PopLast, Clear, Front, Peek(i in [-Len-2, Len+2]), Each(stop after j), Slice, Len and "
            "runs addRun/pushRun/popRun/popLastRun of 1..20 steps; three cases in four additionally start with a constructed "
            "prefix that fills the buffer exactly while the head is in the middle (from the back by Add after Pop, from the "
            "front by Push after PopLast, or Push into an empty NewSize buffer) followed by the Add/Push that must rotate and "
            "regrow. Values are 1,2,3,... so loss, duplication and reordering are visible. After EVERY single step (each "
            "element of a run) the interpreter compares Len, IsEmpty, Front, Slice (nil when empty), the full Each sequence and "
            "Peek(i) for every i in [-Len-2, Len+2] with a reference slice (Add appends, Push prepends, Pop/PopLast remove at "
            "the ends and must return (0,false) on empty); Each must stop after exactly j callbacks. A case is NON-TRIVIAL iff "
            "it reached 'buffer full with head > 0, then Add or Push'. The ring state is not observable, so this is decided by "
            "a shadow (cap, head, n) that follows the algorithm documented in queue.go and grows a real []int with the same "
            "append calls; the shadow only labels cases (classes '...(shadow)') and is never compared with the queue. "
            "Distinct = distinct canonical JSON of the case (64-bit hash), unioned over shards. "
            "leg exh: every sequence over {Add, Push, Pop, PopLast} of length 0..L (L = 9 quick, 11 thorough), in size order, "
            "for each NewSize(n), n in 0..4, same comparison after every step; distinct by construction; non-trivial by the "
            "same shadow rule. "
            "One peek in twenty uses an offset at the ends of the int range (math.MinInt, MinInt+1, MaxInt, MaxInt-Len, +-2^31, +-2^32). "
            "ELEMENT KINDS (the library is generic, so the property must hold for every instantiation; a change that special-cases a type through a type switch, reflect, unsafe.Sizeof, DeepEqual or fmt is only visible this way): half of the hist cases run Queue[int]; the others instantiate the queue with string, int16, uint8, an 88-byte struct, *Cell (new pointer per element, about half of the pointees deeply equal), []byte (fresh backing array, four contents) or any holding *Cell. Serial numbers are converted at the API boundary, and every comparison demands the very element that was supplied (==, same pointer, same backing array, content intact) and the zero value of the type on empty. The 'fill exactly' prefix and the labelling shadow use the capacities append really produces for that element type. Leg exh stays exhaustive for Queue[int] up to L and re-runs every case up to L-1 with one of the seven other kinds, cycling by case index. "
            "Constructor edge: NewSize(N) for N in 1025..4100, filled exactly, head at the runtime's growth amount for that element type -1/+0/+1/+2, then Add/Push (about 1 case in 150). The each op also starts a second Each (and a Slice) inside the callback of the first. "
            "NewSize arguments include 1024, 1025, 1500 and 2049 (large, mostly empty buffers).",
    "assumptions": COMMON_ASSUME + [
        "capacity growth of the shadow follows the runtime's append for the same element type (labels only)",
        "statement coverage of queue.go / slice.Rotate is not recorded by the driver; the shadow classes "
        "full_head>0_then_Add / full_head>0_then_Push stand in for it"],
}

PROPS["C10"] = {
    "legs": [rapid("stack", "pseq", "TestC10Stack", 4, 2000, 16, 60000),
             rapid("mqueue", "pseq", "TestC10MQueue", 4, 2000, 16, 60000),
             rapid("list", "pseq", "TestC10List", 4, 2000, 16, 60000),
             rapid("ring", "pseq", "TestC10Ring", 4, 2000, 16, 60000),
             plain("ringbig", "pseq", "TestC10RingBig"),
             plain("listbig", "pseq", "TestC10ListBig")],
    "rule": "Four rapid legs, each drawing a history as data and comparing with a reference after EVERY step. "
            "stack / mqueue: zero value or constructor; Push/Add/Pop/Top/Front/Peek(n in and out of range; n<0 must panic)/"
            "Each(stop after j)/Len/IsEmpty/Clear/Slice and runs, against a reference slice (Each/Slice of the stack newest "
            "first; Slice nil when empty). Non-trivial: stack = a Push/Add after a Pop that left the stack non-empty AND an "
            "out-of-range or negative Peek; mqueue = Add after the queue was emptied by Pop or after Clear of a non-empty "
            "queue (the queue caches a cursor at its tail). "
            "list: zero value or NewList, 0..9 initial elements, up to 5 live cursors obtained by At(n)/Find/Last/End; cursor "
            "ops Get, Set, Push, Add(0..3 values), Remove, Truncate, Next, AtEnd; list ops Clear, Peek, Each(stop), Len, "
            "At/Peek with n<0 (must panic); 0..2 spliced scenarios make a cursor stale (another cursor's Remove just before it, "
            "a Truncate upstream, Clear) and then use it. Model = sequence of entry ids with unique values + per cursor the id "
            "of its predecessor entry; the documented before/after pictures are the transition rules; a cursor denotes what "
            "follows its predecessor, so a cursor AT a removed element stays valid and sees the next one, and cursors not "
            "documented as invalidated must keep working. A cursor whose predecessor entry left the list is stale: every "
            "method (AtEnd, Get, Set, Push, Add(>=1 value), Remove, Truncate, Next) must panic with a value containing "
            "'invalid cursor', must return (the kit's CPU watchdog turns a hang into a violation) and must leave the list "
            "unchanged; AtEnd and Get of EVERY stale cursor are re-probed after every step. A cursor at position 0 when Clear "
            "is called (the documentation says invalidated, the property does not require refusal) may either refuse or keep "
            "working - decided once by a probe. After every step: IsEmpty, Len, full Each, Peek at 0/Len-1/Len/Len+1, and for "
            "every valid cursor AtEnd, Get and the rest of the list as seen by walking a copy of the cursor with Next. "
            "Non-trivial: a stale cursor was used by an operation of the history after a structural edit elsewhere. "
            "ring: pool of <=24 elements (Value = id) created by New(n in -1..5)/Of(0..5 values); Join(r,s) for arbitrary "
            "pairs, same-ring pairs at a drawn distance (identical, adjacent, >=2, s = predecessor of r) and different-ring "
            "pairs (incl. single-element rings), Pop, Each(stop), nil-receiver Len/IsEmpty/Each/At/Peek/Pop. Model = set of "
            "cycles of ids; Join's two documented cases give the resulting cycles and the returned element (r == s: unchanged, "
            "nil). After every step, from EVERY element: Next/Prev equal the model's neighbours and are mutually inverse, "
            "Each and Len equal the model's rotation, At(n)/Peek(n) for n in [-Len-1, Len+1] (nil or the element itself "
            "accepted at |n| == Len), so the multiset of elements is conserved. Non-trivial: a same-ring Join at distance >= 2 "
            "and a different-ring Join in one history. Distinct = distinct canonical JSON of the case (64-bit hash), unioned "
            "over shards. "
            "ELEMENT KINDS (the library is generic, so the property must hold for every instantiation; a change that special-cases a type through a type switch, reflect, unsafe.Sizeof, DeepEqual or fmt is only visible this way): every leg draws an element kind for its container: half of the cases use int; the rest instantiate Stack/Queue/List/Ring with string, int16, an 88-byte comparable struct, *Cell pointers, []byte or any (holding fresh pointers). The model stays in ints and every comparison additionally requires, for the kinds with an identity, that the element returned/listed is the very element that was handed in (pointer / backing array / value+ID), with the zero value of T where the int model has 0. In the list leg half of the Sets through a cursor at a real element (spliced in by construction) supply a NEW element whose value (for pointer-like kinds: whose pointee/contents) equals the one it replaces, and the list must then hold the element that was set; ring.Of must store the given elements themselves and ring.New zero values. Peek/At offsets include the ends of the int range. "
            "The each ops also start a second Each inside the callback of the first. "
            "One list Add in ten passes 15..65 values in a single call. "
            "BIG CONTAINERS: about one ring case in 16 additionally builds one large ring beside the pool (sizes around powers of two from 64 to 4096, round and odd sizes, or uniform up to 6000) by Of, New, Join of two rings, Pop of some elements, or a run spliced out by a same-ring Join; after one Next/Prev/Len/Each check of the cycle, At and Peek are compared at both signs of offsets around 0, Len/2, Len, 2*Len, powers of two +-1, Len+-2^k, round numbers and MaxInt with the documented rule (the element |n| steps away while |n| < Len, nil / (zero, false) beyond, either accepted at |n| == Len). Leg ringbig sweeps the same probe over every favoured size up to 2^16+2 (thorough: 2^20+2); non-trivial there = ring of >= 1024 elements. Leg listbig builds ONE list of 2^k-1 / 2^k+3 elements (k to 20, thorough 22; per-element Add, one variadic Add, or Push at the front), saves cursors around the cut, at cut+2^j+-1, N/2, N-1 and the end, clears or truncates the list (cut at 0, 1, a random place, or beyond the middle), and requires every saved cursor behind the cut to refuse Get/AtEnd/Next/Set/Push/Add/Remove/Truncate with an 'invalid cursor' panic however long the discarded tail is, the cursors before the cut to read their elements, and Len/Each/Peek of the rest to be unchanged by the refused calls; non-trivial there = a stale cursor more than 2^16 positions behind the cut. About one stack / mqueue / list case in 16 additionally builds one long container (same sizes; list filled by one variadic Add, per-element Add at the end cursor, or Push at the front; a few elements popped or removed again) and checks Len, Each, and Peek (and List.At) at the same offset families: in range the very element and true, from Len on ok = false / the end cursor.",
    "assumptions": COMMON_ASSUME + [
        "a hang is recognised by the kit's watchdog (case still running after 30 s wall and 20 s CPU; the operations are O(n <= 64))",
        "mlink cursors are value-copyable (the position check walks a copy of the cursor)",
        "Cursor.Add with zero values and ring.Join with a nil argument are outside the documented domain and not exercised on stale cursors / at all"],
}

PROPS["C08"] = {
    "legs": [rapid("hist", "pcache", "TestC08Hist", 4, 6000, 16, 500000),
             plain("longrun", "pcache", "TestC08LongRun", shards={"quick": 1, "thorough": 2})],
    "rule": "limit in 1..12 (biased to >=6); size function absent (unit) or value-dependent (0..4, sometimes exactly the "
            "limit or above it); keys in 0..limit+3 so that evictions happen; unique values; <=60(+limit+6) ops among Put, "
            "putNew (Put of a key that is absent), Get, Has, Remove, Clear, with a spliced fill / touch-a-middle-aged-key / "
            "remove-a-middle-key / refill-past-the-limit pattern in two cases of three; every case ends with Clear. After "
            "every op the result, Len, Size and the eviction-callback log of that op (as a sequence; as a multiset for "
            "Clear) are compared with a reference LRU cache written as a recency list (replacement reports the old pair "
            "first, then victims in LRU order; a Put above the limit is refused and changes nothing; Has is not a use). "
            "Strict whatever the eviction choice: Size<=limit, a callback only for a stored value and only once, every "
            "stored value reported exactly once by the end. Known finding F2 (heapq interior removal without sift-up): "
            "exposure = a Get-hit, Remove-hit or replacing Put while Len>=6; unexposed cases are strict; in an exposed case "
            "a mismatch is attributed to F2 only if a re-implementation of cache.go+lru.go over the F2 deviation heap "
            "(verif/devheap) has reproduced every result of the whole history, and from then on the cache must keep "
            "following that model. NON-TRIVIAL iff some eviction's victim had been re-ordered by an earlier Get or had a "
            "recency neighbour removed by Remove. Distinct = hash of the case JSON. "
            "ELEMENT KINDS (the library is generic, so the property must hold for every instantiation; a change that special-cases a type through a type switch, reflect, unsafe.Sizeof, DeepEqual or fmt is only visible this way): half of the cases keep Cache[int, Val] with OnEvict then WithSize. The rest draw keys from int / string / 88-byte struct / int16 (key 0 is the key type's zero value) and values from Val / *Cell / any holding *Cell / 88-byte struct / string or []byte sized by cache.Length (limit and sizes x8, the empty value has size 0 and no identity; with no size function the lengths are 8 to 68). For *Cell values of equal size the pointees are deeply equal but the pointers distinct. They also draw the options in either order, given twice (the last wins, the earlier functions must never be called), set on a discarded copy, or absent, and may bracket every step with Has(key). Every element handed back by Get or the callback must be the very element that was Put. putSame re-puts the identical element and putEq a new element of equal size (a new pointer to an equal pointee); both must produce the replaced-entry callback. "
            "About 1 case in 300 contains a marathon: 33 000-70 000 replacing Puts or Remove/Put pairs on one or two keys, every step checked. A quarter of the cases start with 'stir and flush': fill exactly, 2-7 Gets/Removes/replacing Puts, then limit+1 fresh keys so that the whole eviction order is observed. leg longrun (thorough: 2^31+1000 and 2^32+1000 successful Gets between Put(1),Put(2) and Put(3), which must evict key 2; quick: 3 million). "
            "HUGE LIMITS: about one case in 12 draws its limit from the whole int64 range (both sides of 2^31, 2^32, 2^53, 2^62 and up to MaxInt64) with a size function returning values up to the limit - size 0, exactly the limit, just above the limit (a legal refused Put), key-dependent low bits; every sum the cache must form is constructed (not filtered) to stay within int64, and each step is compared with the int64 reference LRU model.",
    "assumptions": COMMON_ASSUME + ["a defect whose symptoms coincide with the F2 deviation model on every generated history would be filed under F2"],
}

PROPS["C09"] = {
    "legs": [plain("conc", "pcache", "TestC09Conc", race=True,
                   shards={"quick": 4, "thorough": 16},
                   env={"quick": {"VK_C09_WORKLOADS": "400"}, "thorough": {"VK_C09_WORKLOADS": "20000"}}),
             plain("bigclear", "pcache", "TestC09BigClear", race=True, shards={"quick": 2, "thorough": 8}),
             plain("multi", "pcache", "TestC09Multi", race=True, shards={"quick": 2, "thorough": 8}),
             plain("steady", "pcache", "TestC09Steady", race=True, shards={"quick": 2, "thorough": 8})],
    "rule": "workloads are drawn as data by a rapid generator (Example seeds derived from VERIF_SEED and the shard): 2-4 "
            "goroutines x 4-12 calls of Has/Get/Put/Remove/Len/Size/Clear over keys 0..3, unique values of size 1-3, "
            "limit 3-5 (at most 5 entries, so known finding F2 cannot be exposed and the sequential specification is the "
            "pure LRU of C08), GOMAXPROCS in {1,2,4,16}; the harness's own size function and eviction callback run inside "
            "the cache's critical section and yield / spin for a drawn amount, which stretches exactly the windows a "
            "narrowed or dropped lock would open. Each workload is executed 4 (quick) / 6 (thorough) times, alternately "
            "'stamped' (every call bracketed by one atomic counter; the recorded history is checked with "
            "porcupine.CheckOperationsTimeout against the LRU specification, eviction lists included in the outputs, "
            "Len/Size observations are operations) and 'raw' (goroutines share nothing but the cache, so the race "
            "detector sees every unsynchronised pair). The binary is built with -race (GORACE=halt_on_error=1): any report "
            "is a violation. At quiescence of every execution: every successfully stored value was reported to the "
            "callback exactly once (during the run or by the final Clear), nothing else was reported, Len/Size equal what "
            "the final Clear released and Size<=limit. A state-based deadlock detector (all unfinished workers parked in "
            "Mutex.Lock inside cache methods) reports a deadlock. evaluations = executions; NON-TRIVIAL (counted per "
            "distinct workload) iff in some stamped execution two calls of different goroutines overlapped in real time on "
            "the same key or a Put that evicted overlapped another call. A checker timeout counts as inconclusive, never "
            "as a violation. leg bigclear: caches of 7..513 unit entries (Put of fresh keys, Has, Len, Size and Clear never "
            "remove from the interior of the recency heap, so F2 stays unexposed): N entries are stored, then ONE Clear "
            "runs against 1-3 reader goroutines; every Len/Size/Has observation must be the state before the Clear or the "
            "state after it, a reader that saw 'after' (or started after Clear returned) must never see 'before', and the "
            "callback must report each entry exactly once; evaluations = executions, non-trivial = executions in which a "
            "reader saw both states (counted, not deduplicated: executions are not reproducible). "
            "Half of the workloads use keys in int / string / 88-byte struct and values in Val / *Cell / string, up to 5 keys. One third of the workloads run on a USER-SUPPLIED Store passed through WithStore (the Store documentation promises that the Cache serialises access to it): a lock-free recency list whose every method, Check included, writes plain counters; in raw executions only the cache's lock orders the calls, so the race detector reports any gap, stamped executions also count the calls inside the store. One fifth are single-goroutine workloads (limit 4-5, unit sizes: fill, Remove, Get, fresh Puts) that are stepped directly against the reference LRU, naming the first wrong call; they never count as non-trivial. Elements are made before and converted after the concurrent phase, so the harness adds no synchronisation. Put sizes include 0 (cache.Length of an empty value). "
            "leg multi (race build): 2, 4 or 8 caches live at once, each used by ONE goroutine running a C08 history against the sequential reference (every 50th group: 8 tiny caches with thousands of operations each): caches share nothing a caller can see, so every one must behave as it does alone. "
            "About one workload in 6 uses the huge limits and sizes of C08 (concurrent, one-goroutine and the private caches of leg multi), with sizes constructed so that no schedule can overflow int64: a refused Put of a value that fits, or an eviction although everything fits, is a violation. "
            "leg steady (race build): a cache holding exactly K unit-size entries (limit K, K in 1..8) while 1-3 goroutines REPLACE the values of those keys (20000 Puts each; thorough 60000) and 1-4 goroutines observe. No call of the workload adds or removes a key, so at every possible linearization point the cache holds exactly those keys: whatever the schedule, every Has(k) and Get(k) must find k (Get: a value put for k), every Len and Size must be K, every Put must succeed, and the eviction callback must have reported exactly the replaced values, once each. This consequence of the property is checked call by call - millions of observations per run, so a window of a few instructions in which a call sees a half-updated cache is found by repetition. Non-trivial: every workload.",
    "assumptions": COMMON_ASSUME + [
        "the Go scheduler is not owned by the harness: interleavings are sampled, not enumerated; a defect that needs one specific preemption inside a few instructions can be missed",
        "the Go race detector reports only races that occur in an execution",
        "porcupine v1.3.0 decides linearizability correctly"],
    "technique": "randomised concurrent workloads; Go race detector + porcupine linearizability check against the C08 reference model + quiescence accounting",
}

PROPS["C13"] = {
    "legs": [plain("exh", "pmdiff", "TestC13Exhaustive", solo=True),
             rapid("rand", "pmdiff", "TestC13Rand", 4, 3000, 16, 200000)],
    "rule": "leg exh: every pair (Left, Right) of line sequences over {a,b,c} with both lengths <=5 (quick) / <=6 "
            "(thorough), each with every context size n in {0,1,2,3,4,50}; leg rand: pairs of up to ~45 lines derived from "
            "a common base by per-line delete/replace/insert mutations over alphabets of 2-5 lines (so lines repeat), n "
            "in {-1,0,1,2,3,5,8,50}. For each case, after New, after AddContext(n) and after Unify: every chunk's edits "
            "are executed and must consume exactly Left[LStart,LEnd) and produce exactly Right[RStart,REnd) with ranges "
            "in bounds; after New and after Unify the chunks must be ascending and disjoint on both sides (after Unify "
            "also not adjacent) and splicing each chunk's output over its left range must turn Left into Right; after "
            "AddContext each chunk must be New's chunk plus at most n context lines before and after, as single Emit "
            "edits, with the original edits unchanged in between; every unified chunk covers a run of original chunks "
            "and extends at most n lines beyond it; Diff.Edits (a full script from Left to Right), Left and Right must "
            "equal snapshots taken after New. NON-TRIVIAL iff the diff has >=2 chunks whose gap is smaller than 2n "
            "(contexts meet or overlap), n>0, and an input has a repeated line. Distinct: by construction (exh) / hash "
            "of the case JSON (rand). "
            "Memory layouts: the two arguments of New are separate slices, or (where one is a prefix / suffix of the other, which the generator produces on purpose) that very prefix / suffix of the other's memory, or adjacent windows of one buffer. "
            "The chunk oracle holds after every step of an arbitrary pipeline over New, AddContext (also repeated: each call adds at most its n lines to what was there), Unify and Diff.Format with any of the three formatters (rendering a diff must leave its chunks as they were); a finished diff stays intact while later diffs are built (vk Retain). "
            "One rand case in four afterwards calls New again on one pair of slices whose contents were updated in place (same storage, same lengths, up to 3 rounds, one of them making the sides equal), under the same oracle. "
            "BIG DENSE INPUTS: leg exh additionally runs directed pairs of long inputs (described symbolically in the case: lengths, alphabet, seed, mode), 150 to 2500 lines (thorough: to 20000) over 3 to 8 different lines, so that the number of pairs of equal lines passes 2^12 to 2^20 (thorough 2^24), under the full oracle; leg rand draws such a pair (257 to 900 lines per side) for about one case in 150 (thorough: 100).",
    "assumptions": COMMON_ASSUME,
    "technique": "small-scope exhaustive enumeration + property-based testing (rapid) with an executable patch-application oracle",
}

PROPS["C18"] = {
    "legs": [plain("exh", "pmapset", "TestC18Exhaustive"),
             rapid("hist", "pmapset", "TestC18Hist", 4, 25000, 16, 600000)],
    "rule": "A case is a history over four set variables (JSON: initial values as element lists, null = the nil set, "
            "[] = empty non-nil; ops with plain integer arguments).  One interpreter serves both legs: the reference "
            "of every variable is a strictly ascending slice of ints (never a Go map); after EVERY step every "
            "variable is compared with its reference through Len, IsEmpty, Has(-1..8 and the probe element), Slice "
            "(sorted copy must equal the reference: each member exactly once) and Append([-7 -8]) with spare capacity "
            "0/1x/2x (prefix preserved, then each member exactly once); results of Intersects/IsSubset/Equals/HasAll/"
            "HasAny are compared with the set-theoretic answers; Pop must return a member that was present and remove "
            "only it (zero value and no change on an empty set); New/Clone/Intersect/Keys/Values/Range must return "
            "non-nil, and after each of them (and after AddAll) aliasing is detected behaviourally: the element 99 is "
            "written directly into the result map and must not appear in any other variable, and written into every "
            "other non-nil variable and must not appear in the result; Keys is also called on a set variable's own "
            "map (U = struct{}), Keys/Values on nil maps, argument maps/slices must be unchanged.  For Intersect() of "
            "no sets only non-nil-ness is demanded.  leg exh: EVERY one-operation history over the universe {0,1,2} "
            "(thorough {0,1,2,3}): 9 (17) set values = nil + all subsets; all ordered pairs plus the same variable on "
            "both sides for Intersects/IsSubset/Equals/AddAll/RemoveAll; every Intersect argument list of length <= 3 "
            "(thorough 4), also assigned over its first operand; every item list of length <= 3 (4) x every receiver "
            "for HasAll/HasAny/Add/Remove; the same lists for New/Keys/Values/Range; Clone/Keys/Range of every value "
            "into another and into the same variable; Clear, Pop, and a drain by Pop with one Pop too many; "
            "enumerated in size order.  NON-TRIVIAL (exh) iff the operation is binary (two sets, or receiver and item "
            "list) and its operands differ in size or one of them is nil/empty.  leg hist: rapid draws 3 initial values "
            "(nil 25%, empty 12%, else 1..6 distinct elements of 0..5) and <= 40 ops among add, addall, remove, "
            "removeall, pop, clear, setnil, clone, new, intersect (0..4 operands), keys (own map / built map / nil "
            "map), values, range, and the five predicates, with items from 0..5 (sometimes 0..7) and operands that "
            "may be the same variable; three quarters of the histories get a binary operation spliced in in both "
            "operand orders.  NON-TRIVIAL (hist) iff the history contains BOTH a binary operation on non-empty "
            "operands of different sizes AND a binary operation with a nil or empty operand.  The classes histogram "
            "counts, per case, receiver_larger / receiver_smaller / nil operand / add on nil receiver / self operand / "
            "pop on empty and non-empty / constructor alias probes and every op kind.  Distinct = distinct canonical "
            "JSON of the case (64-bit hash), unioned over shards. "
            "Range is called with a restartable sequence or with a single-use one (a second pass yields nothing). "
            "ELEMENT KINDS (the library is generic, so the property must hold for every instantiation; a change that special-cases a type through a type switch, reflect, unsafe.Sizeof, DeepEqual or fmt is only visible this way): every case names an element kind: half keep Set[int] with the ints as members, the rest (and the whole exhaustive enumeration, once per kind) instantiate Set[T] with int/int16 at the ends of their ranges, strings (20-byte texts, the same with a suffix, short texts), 88-byte structs differing in one word, *Cell pointers (members are identities; neighbouring model values are distinct pointers to deeply equal cells), Set[any] with members of MIXED dynamic types (nil, int, string, *Cell, float64 that print alike) and float64 (integers, halves, -Inf, huge, denormals); model value 0 is the zero value of T in every kind, the reference stays in ints and all checks apply to every kind. For Set[float64] the op nanclear puts 1..3 NaN members into a variable through the built-in map operation and demands only that Clear leaves Len()==0; nothing else is asserted about NaN (a Go map can neither find nor delete a NaN key). "
            "Element kinds also u8/i8, where model values 0..255 are ALL values of the type; op compl makes one variable the complement of another, so operand pairs that exactly partition the type occur by construction; Intersect takes 0..12 operands (exh: lists of 4..12 equal operands with one odd one at every position); results of Slice/Append/Keys are re-validated after the next case (vk Retain). "
            "NEAR-EQUAL OPERANDS, REPEATED: leg exh also runs a directed (non-exhaustive) sweep: for every size n in 0..70 and 127, 128, 129, 255, 256, 257, 1000, a set A of n members and B = A, A with one member swapped for a fresh one, A less one, A plus one, n fresh members, or n members sharing exactly one with A (op near, built with built-in map operations). Equals, IsSubset, Intersects, HasAll, HasAny, Intersect, Add, AddAll, Remove and RemoveAll run on (A,B) and (B,A), each evaluated 32 times for n <= 70 (16, 8, 4 for larger; x8 thorough) because map iteration order differs per call (op field r); mutators are repeated on fresh copies, and item lists are the other set's members, rotated per call. Leg hist draws the same shape in about 1 case in 32. Element kind unit = Set[struct{}] (one value) is enumerated over universe {0} and drawn in about 4% of histories.",
    "assumptions": COMMON_ASSUME + [
        "element kinds as listed in the rule; other instantiations are assumed to behave like one of them",
        "writing to the underlying map directly (documented as allowed) is used for the aliasing probe",
    ],
}

PROPS["C19"] = {
    "legs": [rapid("det", "pdistinct", "TestC19Det", 4, 20000, 16, 400000),
             plain("stat", "pdistinct", "TestC19Stat", solo=True, shards={"quick": 1, "thorough": 4}),
             plain("reuse", "pdistinct", "TestC19Reuse"),
             plain("huge", "pdistinct", "TestC19Huge"),
             rapid("nan", "pdistinct", "TestC19NaN", 1, 300, 4, 20000),
             plain("long", "pdistinct", "TestC19Long", solo=True),
             plain("marathon", "pdistinct", "TestC19Marathon", solo=True),
             plain("indep", "pdistinct", "TestC19Indep")],
    "rule": "leg reuse: one counter is run 24 times on the same stream (D distinct values, D > 20*size and not of the form Len*2^k) with Reset between the runs; if all 24 runs return the same Count the mean over repeated runs is stuck away from D (runs through Reset are not independent) - for independent runs and sizes >= 16 the probability of that is below 1e-15; non-trivial = the runs gave at least two different counts. The counter seeds itself from crypto/rand, so no run is bit-reproducible; the deterministic clauses hold "
            "with probability 1 and are checked on every run, the unbiasedness clause is statistical.  leg det: a case "
            "is (size, reps, ops) with ops[i] >= 0 = Add(value) and -1 = Reset; size from {2,3,4,8,16,64} (75%) or "
            "uniform 2..256; a third of the streams are drawn element by element (<= 300 ops over a domain of <= "
            "6*size values, Reset with probability 1/40), the others are expanded from a drawn descriptor into the "
            "explicit list: d distinct values with d below the size, at size-1..size+1, in (size, 4*size], in "
            "[4*size, 20*size] or in [20*size, 40*size], each value repeated 1..k times (k <= 4) uniformly "
            "interleaved / in rounds (repeats far apart) / adjacent, 0..2 Resets at drawn positions and optionally a "
            "second stream after a final Reset.  The stream is fed to reps (1..32) independent fresh counters.  After "
            "EVERY Add: Len <= size; if Len > 0 Count is a multiple of Len and Count/Len is a power of two >= the "
            "previous one since the last Reset; if Len == 0 Count == 0; while fewer than `size` distinct values were "
            "added since the last Reset, Count == Len == the exact distinct count (reference: a bitmap of seen "
            "values); after Reset Len == Count == 0 and the exact regime holds again.  NON-TRIVIAL (det) iff some "
            "value is re-added after the buffer has filled (>= 1 halving) since the last Reset.  leg stat: per run 12 "
            "streams (per shard; thorough 4 shards): each size in {2,3,4,8,16,64} once near capacity (d = size-1, "
            "size, size+1 or 2*size) and once far above it (d = 5, 10, 20 or 40 times the size), each value repeated "
            "1..k times (k in {1,2,3,4,5}, rotated) in one of the three interleavings; R = 4000 (thorough 40000) "
            "independent counters per stream on all cores; mean of Count at the end of the stream and after the first "
            "half against the exact distinct count of that prefix.  Band: if all R counts agree (s == 0, e.g. below "
            "capacity) the mean must equal d exactly; otherwise -L*s/sqrt(R) <= mean - d <= 8*s/sqrt(R) with s the "
            "sample standard deviation and L = 8 for size >= 8.  Count = Len*2^k has a power-law tail of index `size` "
            "(a halving pass that removes nothing, probability 2^-size, is repeated), so for sizes 2, 3, 4 its "
            "variance / skewness / kurtosis are infinite: the Student statistic then has a lighter-than-normal upper "
            "tail but a heavier lower tail (simulated on the unchanged tree, 20 000..400 000 replicates of the whole "
            "experiment: like N(0,1.41^2) for size 2, N(0,1.16^2) for size 3, N(0,1.07^2) for size 4; P(t < -8) "
            "would be about 1e-9 for size 2), therefore L = 16 for sizes 2..3 and L = 12 for sizes 4..7.  For size "
            ">= 8 measured skewness <= 1.5 and kurtosis <= 9 (200 000 counters per stream), so an 8-s.e. excursion has "
            "probability < 1e-13 per checkpoint; 24 checkpoints per run (96 in the thorough tier) stay far below "
            "1e-9 per run.  If several streams fail, the one that is off by the most standard errors is reported.  "
            "NON-TRIVIAL (stat) iff the stream has repeats and more distinct values than the buffer size.  A replay of "
            "a stat case re-runs its R counters with fresh entropy (a real bias fails again; not bit-reproducible); a "
            "replay of a det case re-runs its reps counters.  Distinct = distinct canonical JSON of the case (det, "
            "64-bit hash, unioned over shards); the 12 stat streams of a shard are distinct by construction (size x "
            "near/far).  evaluations counts streams; the class `counter_runs` counts the individual counters. "
            "leg huge: buffers of 2^17+1 .. 2^20 elements: fill with size-1, about 3/4 size, or 1-2 x size distinct values (exact Len/Count checked every 4096 values while below capacity; Count = Len x 2^k at the end), Reset (Len = Count = 0), then a small exact stream; non-trivial iff more than 2^18 values were buffered at the Reset. "
            "ELEMENT KINDS (the library is generic, so the property must hold for every instantiation; a change that special-cases a type through a type switch, reflect, unsafe.Sizeof, DeepEqual or fmt is only visible this way): about half of the det/reuse/stat cases and the original huge cases use Counter[int] on the stream values; the others instantiate Counter with int (range ends, pairs equal mod 2^32 or equal as float64), string, int16, an 88-byte struct, [64]byte, [512]byte, *Cell (nil; distinct pointers with deeply equal pointees are distinct values), any (nil, *Cell, int/int32/string of the same text) or float64 (+0/-0 are one value; a NaN is buffered only before a Reset, after which Len = Count = 0), every stream value mapped one-to-one to an element and value 0 to the zero value. About 10% of det cases and several huge cases use buffer sizes no stream can fill (2^16 .. 2^32+100, 3<<32, 2^52, 2^62, MaxInt): the counter must stay exact throughout. The huge leg also keeps counters of 88-, 64-, 512- and 16-byte elements exact with more than 4, 16 and 64 MiB of elements buffered, and all 65536 int16 values; non-trivial (huge) iff more than 2^18 values or more than 4 MiB of elements were buffered. leg nan: Counter[float64] of size 2..100 fed up to 4 x size values, NaNs among them: asserted is only that every Add returns (kit watchdog) and that Reset leaves Len = Count = 0 (regression of F8b). "
            "leg long: R independent counters of size 3..8 are fed 2^19..2^21 distinct values (16..20 eviction passes); the deterministic clauses are checked every 1024 Adds, and the mean Count must exceed T*n with T = 1 - sqrt(2c*ln(1e10)/R), c = E[Count^2]/n^2 from the exact law of the algorithm (a proved lower-tail bound for sums of non-negative variables: false-alarm probability <= 1e-10 per case). leg marathon: W parallel counters of size 2 or 3 fed 0,1,2,... with Len <= size and 'Count is Len times a non-decreasing power of two' checked every 65536 Adds until a multiplier >= 2^24 (quick) / 2^32 (thorough: about 10^9 Adds each on 16 counters) is seen. "
            "leg indep: 600 counters of size 4 (and 300 of size 2) constructed one after the other and fed the same stream: no period p <= N/2 may make the (Len, Count) trajectories of counters i and i+p identical for every i (independent runs; chance agreement of even one pair is far below 2^-40). "
            "LARGE BUFFERS AND TINY TYPES: leg stat additionally runs buffers 16384, 20000, 32768 (every run) and two seed-rotated sizes in 1024..65536, streams of 5..9 x the size described symbolically in the case, R = 128..1024 counters, same band (8 standard errors; with R-1 degrees of freedom Wallace's bound on Student's t keeps the band beyond 7 normal deviations for R >= 100, and it widens automatically for smaller R); thorough sweeps sizes 2^4..2^17 and their midpoints. Legs det / huge: the element kinds include types with 1, 2 and 256 values (struct{}, [0]int, a struct of zero-size fields, bool, uint8); stream value x stands for x mod card and the oracle works on the reduced stream, so a Counter[struct{}] must report Count == Len == 1 after any Adds at every buffer size.",
    "assumptions": COMMON_ASSUME + [
        "crypto/rand and math/rand/v2 ChaCha8 deliver independent uniform bits (the statistical clause is a statement about the algorithm, not about the entropy source)",
        "the false-alarm bound of the statistical leg for buffer sizes below 8 rests on simulation of the Student statistic out to the 1e-5 level and a normal-tail extrapolation with a safety factor of about 2 in standard deviations; it is not a proved bound",
        "more than 63 halvings (Count overflows uint64) are unreachable for these stream lengths",
    ],
}

PROPS["C20"] = {
    "legs": [plain("mbits", "pbytes", "TestC20Bits", solo=True),
             rapid("mbitsval", "pbytes", "TestC20BitsValues", 2, 20000, 8, 500000),
             plain("trunc", "pbytes", "TestC20Trunc"),
             plain("natural", "pbytes", "TestC20Natural", solo=True),
             rapid("naturalrand", "pbytes", "TestC20NaturalRand", 4, 50000, 16, 1500000)],
    "rule": "leg mbits (exhaustive enumeration, case = data bytes in hex + address alignment): for every length "
            "0..300 (thorough 0..1000) and every alignment 0..7 of the first byte's ADDRESS (sub-slice of one backing "
            "array with >= 8 guard bytes on each side, the slice keeps the spare capacity so a stray write lands in a "
            "guard): every zero/non-zero pattern for lengths <= 12 (16), with non-zero values rotating over "
            "01/80/FF/10; for longer slices the all-zero slice, every single non-zero byte, every pair of non-zero "
            "bytes for lengths <= 24 (40), and 4 (8) seeded random patterns per (length, alignment) of densities "
            "1/32..1 with optional long zero head and tail.  Each input is run twice, with all surrounding memory "
            "0x00 and 0xFF: LeadingZeroes and TrailingZeroes must equal the byte-by-byte counts (so the answer cannot "
            "depend on memory outside the slice) and leave the whole backing array unchanged; Zero must return len, "
            "zero exactly the slice and leave every guard byte unchanged; a panic is a violation.  NON-TRIVIAL iff "
            "length >= 17 and some non-zero byte lies in neither the first nor the last 8-byte word.  leg trunc "
            "(exhaustive): every string of <= 5 (7) runes over {a, e-acute, euro sign, U+1F600} (1-, 2-, 3-, 4-byte "
            "encodings) plus 3000 (40000) seeded distinct INVALID byte strings of <= 12 bytes over lead, continuation "
            "and illegal bytes, each with every n in [0, len+2]: result is a prefix of s, at most n bytes, s itself "
            "when n >= len(s); when s is valid UTF-8 the result is valid and, if len(s) > n, at most 4 bytes shorter "
            "than n (the last two clauses are demanded for valid s only).  NON-TRIVIAL iff n < len(s) and s[n] is a "
            "continuation byte (the cut falls inside an encoding).  leg natural (exhaustive): all 1555 (9331) strings "
            "of length <= 4 (5) over the alphabet `0 1 9 / : a` ('/' and ':' are the code points around the digits): "
            "CompareNatural on every ordered pair must be in {-1,0,1}; must be 0 exactly when the strings are equal "
            "after an independent tokeniser has stripped the leading zeros of every digit run (keeping one digit); "
            "when the first token pair that differs after normalisation consists of two digit runs, the result must "
            "be the sign of their comparison as math/big integers; result(a,b) == -result(b,a) on every pair; and "
            "transitivity of <= on EVERY ordered triple, evaluated through 64-wide bitset rows of the <= matrix (for "
            "all a <= b: {c : b <= c} must be a subset of {c : a <= c}; with antisymmetry this implies the strict "
            "variants).  The unit of evaluations is the ordered triple (n^3); NON-TRIVIAL iff the triple contains two "
            "different strings with the same normal form (counted exactly from the class sizes).  The doc comment's "
            "prose about a lexicographic fallback is NOT asserted.  leg naturalrand (rapid): triples of strings of up "
            "to 6 alternating tokens (digit runs of 1..17 significant digits with 0..4 leading zeros, separator runs "
            "over `/:a-z .A_b`), the second and third string mostly mutations of another one (re-spelled number, one "
            "digit changed, one digit longer/shorter, token replaced, tail cut, token appended) and in half of the "
            "cases a pure re-spelling of leading zeros; the same clauses on all nine ordered pairs and all orderings "
            "of the triple; a string with a run of more than 18 significant digits is outside the quantifier and "
            "skipped (the generator never produces one).  Distinct: mbits/trunc/natural are distinct by construction "
            "(seeded random extras are de-duplicated); naturalrand = distinct canonical JSON (64-bit hash) unioned "
            "over shards. "
            "leg mbitsval (rapid): groups of 2/4/8 eight-byte words whose values cancel under addition modulo 2^64 or under xor (or are arbitrary), behind 0..80 zero bytes, at all 8 alignments, ragged lengths: LeadingZeroes/TrailingZeroes/Zero against the byte-by-byte definitions. "
            "Non-digit tokens of the natural-order legs contain, one character in ten, non-ASCII decimal digits, fullwidth digits and letters, superscripts and Roman numerals (CompareNatural's digits are '0'..'9' only). "
            "POSITION SWEEP (second part of leg mbits): lengths 64..4099 around powers of two x 20 addresses modulo 64 (all of 0..15) with 72-byte guards: all-zero, all-random, and every position of one non-zero byte (01/80/FF) with zeros elsewhere / random bytes before / random bytes after; length 65541 (thorough: up to 1 MiB) at 8 addresses for the first/last 700, 200 middle and 100 seeded positions; same oracle as the first part (non-trivial there: the designated byte lies outside the first and last 8 bytes, or the buffer is the random one). In mbitsval 1 case in 16 is a buffer of up to ~6 KiB whose cancelling word group sits on a 16/32/64-byte block from either end; half of the cases are placed at addresses 0..63 modulo 64.",
    "assumptions": COMMON_ASSUME + [
        "amd64: unaligned 64-bit loads/stores are legal; an out-of-slice READ is detected only when it changes the result (both guard values are tried), an out-of-slice WRITE only within the 8..15 guard bytes on each side",
        "int is 64 bits; digit runs are limited to 17 significant digits in generated inputs",
        "Trunc is claimed for n >= 0 only; for invalid UTF-8 only the encoding-independent clauses are demanded",
    ],
}


PROPS["C14"] = {
    "legs": [plain("exh", "pmdiff", "TestC14Exhaustive", solo=True),
             rapid("rand", "pmdiff", "TestC14Rand", 4, 2500, 16, 50000),
             rapid("git", "pmdiff", "TestC14Git", 2, 1500, 8, 30000),
             plain("gnupatch", "pmdiff", "TestC14GnuPatch", shards={"quick": 1, "thorough": 4}),
             fuzz("fuzz", "pmdiff", "FuzzUnifiedRoundTrip", 90)],
    "rule": "diffs are New(L,R) (n=-1) or New(L,R).AddContext(n).Unify() (n in 0..3). leg exh: every pair over {a,b,c} "
            "with lengths <=4 (quick) / <=5 (thorough) x n in {-1,0,1,2,3}, alternately without and with a FileInfo; leg "
            "rand: pairs derived from a common base by line mutations over 2-5 lines drawn from a hostile alphabet "
            "('', '-x', '+y', ' z', '<', '> b', '---', '--- q', '+++ q', '@@ -1 +1 @@', 'diff x', '***', '1a2', '\\', "
            "... and lines without a newline but with bytes a text-mode reader might eat: 'b\\r', '\\r', tab/space/form-feed "
            "at either end, NUL, invalid UTF-8, U+2028, U+0085, U+00A0), FileInfo absent or with random names (no tab/newline) and timestamps at microsecond precision with "
            "minute-granular zone offsets, or zero; leg git: 1-4 such diffs wrapped in 'diff --git'/mode/index/---/+++ "
            "sections, optionally with function context after the second @@. O1 (round trip): Normal->Read yields one "
            "chunk per change command at the expected ranges, Unified->ReadUnified / ReadGitPatch yield the same ranges "
            "and line operations chunk for chunk (Replace = its Drop and Copy halves), Patch.Format reproduces the text "
            "byte for byte, names and times (Equal and same offset) survive; the empty rendering may read as zero chunks "
            "or an error. O2 (meaning): three reference appliers written from the published rules of the normal, "
            "unified (count omitted = 1, count 0 = after that line) and context formats (inclusive ranges, b=a-1 empty, "
            "omitted body = other side's context), using only old-file line numbers and verifying removed/kept lines, "
            "applied to Left must give Right. O3 (leg gnupatch): the same renderings applied by /usr/bin/patch "
            "--fuzz=0 in batches of 200 files per invocation (-u, -c, -n with Index: lines); any offset/fuzz/reject or "
            "differing file fails (case re-run alone to localise). Known finding F5 (ReadUnified/ReadGitPatch read a "
            "one-line range 'N' as empty): exposure = some chunk side has exactly one line; unexposed cases are strict; an "
            "exposed case must parse to exactly the original with those sides collapsed and re-render to the rendering of "
            "that collapsed patch. NON-TRIVIAL iff the diff is non-empty and has an empty range, a one-line range or a "
            "line that is empty or starts with one of - + < > @ space \\ * ! d or a digit (git leg: >=2 file sections). "
            "Distinct: by construction (exh), hash of the case JSON (rand, git), distinct (L,R,n) (gnupatch). "
            "Every reader call stands for itself: 40% of the rand/git cases first parse a malformed variant of the text (9 shapes x 8 stray lines; outcome ignored) directly before the real parse, and parsed patches are re-validated after the next case (vk Retain). Header names include complete quoted literals (\"x\", `x`, 'a'). "
            "The formatters write into a bytes.Buffer directly, through a writer that offers Write only, or through a flushed bufio.Writer (chosen by the shape of the diff). Header names may be empty (then only the timestamps are required to survive: the placeholder written for an empty name is undocumented). "
            "Headers also use FileInfo.TimeFormat set to one of about 30 caller layouts (one header in three): then the names must survive (the times need not) and re-formatting must reproduce the hunks and names. The git leg varies the ---/+++ names, including /dev/null and near misses of it on either or both sides with an empty file side, a trailing tab after the name, and timestamps; names and default-format times must come back and re-formatting of each parsed section must reproduce the library's own text of it (skipped where known finding F5 collapsed a one-line range).",
    "assumptions": COMMON_ASSUME + ["lines contain no newline and no carriage return", "GNU patch 2.7.6 is the external differential oracle; when it is absent leg gnupatch is skipped and says so"],
    "technique": "small-scope exhaustive enumeration + property-based testing (rapid): round-trip, reference appliers, GNU patch differential",
}

PROPS["C15"] = {
    "legs": [plain("exh", "pshell", "TestC15Exhaustive", solo=True),
             rapid("lists", "pshell", "TestC15Lists", 4, 3000, 16, 200000),
             plain("pool", "pshell", "TestC15Pool"),
             plain("shells", "pshell", "TestC15Shells", solo=True),
             fuzz("fuzz", "pshell", "FuzzQuoteSplit", 60)],
    "rule": "leg exh: every single byte 0x00-0xFF and every string of length <=3 (quick) / <=4 (thorough) over the 26 "
            "shell-significant bytes | & ; < > ( ) $ ` \\ \" ' SP TAB NL * ? [ # ~ = % { } ! ] plus 'a' and 0x80; leg "
            "lists: rapid lists of 0-5 strings of <=12 bytes over a weighted alphabet (metacharacters, quotes, backslash, "
            "blanks, newline, { } ! ^ , : -, arbitrary bytes incl. NUL); leg pool: thousands of consecutive calls, then the "
            "same Join/Split calls from 8 goroutines at once must give the sequential answers (pooled buffers/scanners). "
            "O1: Split(Join(ss)) == ss,true and Split(Quote(s)) == [s],true, Join == quoted elements joined by one space. "
            "O2: an independent POSIX scan of Quote(s) (own quote-removal code): well formed, no byte of the XCU 2.2 "
            "special sets left bare, quote removal yields s. O3 (leg shells): dash and bash +B (LC_ALL=C, PATH=/nonexistent, "
            "HOME=/TILDE, cwd holding files a b ab x 1 so that a bare glob changes the word) evaluate "
            "`set -- <Quote(s)>; printf '%s\\0' \"$#\" \"$@\"` for every NUL-free input of leg exh plus generated longer "
            "words, 4000 words per shell invocation; the first discrepancy of a batch is confirmed by running that word "
            "alone. NON-TRIVIAL iff a string is empty, has a non-ASCII byte, or has a single quote adjacent to a "
            "must-quote character. Distinct: by construction (exh, shells: distinct strings), hash of the case JSON (lists). "
            "Lists also contain runs of 2-5 adjacent identical elements of exact lengths around 8/16/32/64/128/256 bytes; every string returned by Quote, Join and Split is kept with a copy taken at once and re-compared after other calls in the same case and after the next case (vk Retain). "
            "OWNERSHIP OF RESULTS: after every validated Split(Join(ss)) / Split(Quote(s)) the caller overwrites the whole returned slice (all of its capacity, plus append to r[:0]) and repeats the identical call immediately and again after one call with a same-length sibling argument; each result is validated from scratch and earlier, scribbled slices must stay untouched. Join is repeated on a copy of the list, on the same slice overwritten in place, and after restoring it (lists <= 4 KiB joined; larger inputs get the immediate repetition only).",
    "assumptions": COMMON_ASSUME + ["dash and bash implement POSIX quoting for the generated words (brace expansion, a bash extension, is switched off with +B); when neither shell exists leg shells is skipped and says so", "NUL-containing strings are excluded from the real-shell oracle only"],
    "technique": "small-scope exhaustive enumeration + property-based testing (rapid): round-trip, independent POSIX scanner, differential against real shells",
}

PROPS["C16"] = {
    "legs": [plain("exh", "pshell", "TestC16Exhaustive", solo=True),
             plain("conc", "pshell", "TestC16Conc"),
             rapid("rand", "pshell", "TestC16Rand", 4, 2500, 16, 40000),
             plain("shells", "pshell", "TestC16Shells", solo=True),
             fuzz("fuzz", "pshell", "FuzzSplit", 60)],
    "rule": "leg exh: every string of length <=6 (quick) / <=7 (thorough) over one representative per tokenizer class "
            "{a, SP, NL, backslash, ', \"} and of length <=4 / <=5 over two representatives per class (0xFF and TAB added); "
            "leg rand: rapid inputs of <=40 bytes weighted towards the class representatives, plus a drawn reader "
            "fragmentation plan. O1: Split's fields and completeness flag equal those of a reference tokenizer written as "
            "a mode loop from the POSIX rules (blanks/newlines, backslash incl. line continuation, single quotes, double "
            "quotes where backslash only escapes \" and backslash and continues lines; at end of input a pending, possibly "
            "empty, token is delivered and the flag is false if a quote or escape is open). O2 (leg shells): for every "
            "enumerated input that is complete and has no unquoted newline, dash and bash +B evaluating `set -- <input>` "
            "produce exactly Split's fields. O3 (Scanner; every input of length <=4, a stride sample of the longer ones, "
            "and every rand case): for each fragmentation (one byte at a time, {2,0,1}, {3}, {1,5,0,2}, whole, drawn; with "
            "and without io.EOF delivered together with data; (0,nil) reads) Next/Text, Each (stoppable) and Scanner.Split "
            "yield the reference tokens, Complete after the last token equals the reference flag, Next stays false, for "
            "EVERY token index j Rest() after j tokens returns exactly the reference's unconsumed suffix and Next is false "
            "afterwards, and a scanner reused through Reset behaves as a fresh one. NON-TRIVIAL iff the input drives >=3 "
            "distinct modes of the reference (word, escape, single, double, escape-in-double) and ends a token otherwise "
            "than by a blank right after a plain character. Distinct: by construction (exh, shells), hash of the case JSON (rand). "
            "About 1 case in 400 pads the input to 0.5-2 MiB (reference tokenizer vs Split and Scanner.Split incl. the ok / Complete flag); source readers: the chunked reader, strings.Reader, bytes.Buffer, bufio.Reader of 16 / 4096 / 65536 bytes, LimitReader. "
            "leg conc: 8 goroutines each tokenize an escape-heavy input of their own (Split, a reused Scanner, a new Scanner) for a bounded number of iterations and must keep obtaining the reference tokenizer's fields and flag; leg rand draws escape-heavy inputs in one case of seven, so that the side-by-side mode overlaps different escapes. "
            "After the last token the chunked source is given more bytes (a source that grows after io.EOF): Next must keep returning false. "
            "Every Split result compared with the reference is scribbled over and the identical call repeated (immediately, and after Split of a one-byte sibling checked against the reference); Scanner.Split is repeated on a new scanner and on the same scanner through Reset after scribbling; a second Split on an exhausted scanner must return no tokens; in leg conc each goroutine scribbles its Split results and every sixth iteration repeats the call at once.",
    "assumptions": COMMON_ASSUME + ["the real-shell comparison is restricted to the statement's domain: complete inputs without unquoted newlines over the tokenizer's classes"],
    "technique": "small-scope exhaustive enumeration + property-based testing (rapid): differential against an independent reference tokenizer and real shells; reader fragmentation",
}

# Driver configuration for the pslice package (C11, C12, C17).
# Append to /verif/checks_config.py (uses its rapid(...), plain(...) helpers and COMMON_ASSUME).

PROPS["C11"] = {
    "legs": [plain("exh", "pslice", "TestC11Exhaustive", solo=True),
             plain("alias", "pslice", "TestC11Alias", solo=True),
             rapid("rand", "pslice", "TestC11Rand", 4, 10000, 16, 50000),
             rapid("big", "pslice", "TestC11Big", 4, 3, 16, 20)],
    "rule": "leg alias: lhs and rhs are two windows buf[i:j], buf[k:l] of ONE backing array (a slice diffed against its own prefix, suffix or appended version): every buffer over {0,1,2} of length <=6 (quick) / <=8 (thorough) x every ordered pair of windows of which one reaches the end; one rand case in six is built the same way. A case is one input pair {lhs, rhs} of slice.EditScript (integer elements). leg exh enumerates, in order of "
            "total length and spread over all cores, EVERY pair over {0,1,2} with both lengths <= 6 and every pair over "
            "{0,1} with both lengths <= 9 (quick; 2.2 M pairs) / {0,1,2} <= 8, {0,1} <= 11 and every pair over {0,1,2,3} "
            "<= 6 that uses the symbol 3 (thorough; 142 M pairs); the scopes are disjoint by construction, so every "
            "evaluated pair is distinct. leg rand (rapid) draws alphabets of 2-4 symbols and lengths <= 60: two copies of a "
            "common base (uniform, runs of equal elements, or periodic) with point/block mutations (substitute, insert, "
            "delete, duplicate a block, insert a run, delete a block) and spliced-in crossings (two adjacent equal-length "
            "blocks swapped), rotations of one sequence, independent and identical pairs. Oracle, per pair: the script is "
            "executed edit by edit - every X must be exactly lhs[lpos:lpos+len(X)] and every Y exactly "
            "rhs[rpos:rpos+len(Y)] (same backing array, checked by element address, and same contents), Emit must "
            "reproduce the next rhs elements, the offsets must end at len(lhs) and len(rhs) and the produced output must "
            "equal rhs; Drop/Emit have empty Y, Copy has empty X, no edit is empty, Replace has both sides non-empty, "
            "adjacent edits differ in kind, no Drop is adjacent to a Copy, the script is empty iff lhs == rhs; the number "
            "of emitted elements equals the LCS length from an independent textbook O(mn) table; both inputs are compared "
            "with copies afterwards. A pair is NON-TRIVIAL iff it has >= 2 DISTINCT longest common subsequences (distinct "
            "as sequences of values; counted by an independent next-occurrence DP that was validated against brute force) "
            "- the ambiguous alignments. Distinct = distinct by construction (exh) / distinct canonical JSON of the pair "
            "(rand, 64-bit hash, unioned over shards). "
            "leg big (rapid): lhs = 0..n-1 (optionally mod 2/7/100/1000) for n in {1100, 2050, 4097, 4100, 4200, 5000}, rhs = lhs with up to 6 deletions and 6 insertions (one of them near the start), either role; the same validity / span / canonical-form checks, minimality against a two-row LCS-length DP; non-trivial iff the input has repeats. "
            "ELEMENT KINDS: half of the cases (random legs) and half of the indices (exhaustive legs, dealt by a hash of the case index) keep int elements; the others instantiate the functions with string, int16, an 88-byte struct, *Cell pointers, interface elements holding pointers, float64 (zeros of either sign, which are == and must be treated as equal), a word-table string kind containing 32-bit checksum-collision pairs (FNV-1, FNV-1a, Adler-32) and, optionally, strings that share storage as prefixes of one another, and []byte for the ...Func variants. Elements carry an identity besides their value, so inputs with the same values but different elements (distinct pointers to deeply equal pointees) are different inputs for ==, and every identity/aliasing check runs on the instantiated slices. "
            "One rand case in four is followed by one or two rounds that rewrite lhs or rhs IN PLACE (same arrays, same lengths) and diff again under the full oracle; one in eight is followed by a second input pair, after which every earlier script is compared with a header copy taken when it was returned (also after the next case, vk Retain). One rand case in ten has lengths whose sum or product, or both lengths, sit at or next to 64, 100, 128, 200, 256, 512, 1000, 1024. "
            "Cases of the interface kind are followed by one more call on []any inputs of plain ints in which ONE lhs element is a slice value (unhashable, and == never meets its own dynamic type): no panic, the script turns lhs into rhs and keeps as many elements as an LCS with that element matching nothing. "
            "ZERO-SIZE ELEMENTS AND POISONED CALLS: one random case in 16 uses a zero-size element type (struct{}, [0]int; for the Func variants also the uncomparable [0]func()), and the exhaustive legs add every pair of lengths up to 40 (EditScript) and 30 (LCS / LCSFunc) and every length up to 300 for LISFunc / LNDSFunc with them. One case in 6 (EditScript, LCS), one in 8 (LIS/LNDS) and one in 32 of the exhaustive legs is preceded or followed by a call whose comparison PANICS and is recovered by the caller (a panicking eq/cmp after J calls, or []any holding slices on both sides so that == panics): that panic is the caller's, but the case's own calls - and the next case - must still satisfy the full oracle (state left behind in a pool, memo or package-level rows shows here).",
    "assumptions": COMMON_ASSUME + ["element kinds as listed in the rule; EditScript is generic in T but its control flow "
                                    "does not depend on T"],
}

PROPS["C12"] = {
    "legs": [plain("lisexh", "pslice", "TestC12LISExhaustive", solo=True),
             plain("lcsexh", "pslice", "TestC12LCSExhaustive", solo=True),
             rapid("lisrand", "pslice", "TestC12LISRand", 4, 10000, 16, 200000),
             rapid("lisbig", "pslice", "TestC12LISBig", 4, 40, 16, 600),
             plain("conc", "pslice", "TestC12Conc"),
             rapid("lcsrand", "pslice", "TestC12LCSRand", 4, 5000, 16, 60000)],
    "rule": "LIS/LNDS legs: a case is {vs, cmp} with cmp in nat (slice.LIS / slice.LNDS), rev (LISFunc / LNDSFunc with the "
            "reversed order) or half (…Func comparing v>>1, so distinct elements compare equal and the identity of the "
            "returned elements is observable); BOTH the strict and the non-decreasing function are called on every case. "
            "leg lisexh enumerates every sequence over {0,1} to length 13, {0,1,2} to length 10 and {0..3} to length 8, "
            "each with the three comparisons (quick; 0.54 M cases) / {0,1} to 18, {0,1,2} to 13, {0..3} to 10, {0..4} to "
            "8 (thorough; 13.8 M), in length order; sequences already contained in a smaller-alphabet scope are skipped. "
            "leg lisrand (rapid): length <= 200 over 1-6 distinct values (2-12 for half): uniform, runs of equals, "
            "ascending/descending plateaus with noise, or a wider value range. leg lisbig (rapid): 30 000 - 280 000 "
            "elements given as 1-4 arithmetic runs {start, step, len} with lengths around 2^15, 2^16, 2^17 and later runs "
            "starting inside the range of the earlier ones (the optimum itself exceeds 2^15 / 2^16 elements; reference "
            "= patience sorting, cross-checked against the quadratic DP on every case of <= 1500 elements). Oracle: the result is a subsequence of "
            "the input (greedy embedding by ==), strictly increasing resp. non-decreasing under the comparison used, its "
            "length equals an independent O(n^2) DP optimum, and the input equals a copy taken before the call. "
            "NON-TRIVIAL iff len(LNDS) > len(LIS) under the comparison used (a run of equivalent elements matters for "
            "the optimum). "
            "LCS legs: a case is {as, bs, fold, lay, win} (lay 4/5: one argument is a window of the other one's memory; LIS cases may be stretched linearly over the whole int range, Wide); fold=false calls slice.LCS, fold=true calls slice.LCSFunc with the "
            "case-folding equality a>>1 == b>>1 (element = 2*letter + case bit). leg lcsexh: every pair over {0,1,2} "
            "with lengths <= 5 and over {0,1} with lengths <= 8, each with and without fold (quick; 0.78 M cases) / "
            "{0,1,2} <= 7, {0,1} <= 10, {0..3} <= 5 using the symbol 3 (thorough; 33 M), in order of total length. leg "
            "lcsrand (rapid): pairs of length <= 200 over 1-5 letters built as in C11 (mutated copies of a common base "
            "with long runs, crossings, rotations, independent, identical), one third with fold and random case bits. "
            "Oracle: the result embeds (greedy, under the equality in use) in as and in bs, each of its elements occurs "
            "literally in one of the inputs, its length equals the textbook O(mn) optimum computed on the equivalence "
            "classes, both inputs equal their copies afterwards - the two arguments are either separate slices or adjacent windows "
            "(as|bs, bs|as, as|gap|bs) of one buffer, so that a result built in an argument's spare capacity shows up "
            "as a modified input. NON-TRIVIAL iff the pair has >= 2 distinct longest "
            "common subsequences (as sequences of classes). Distinct = distinct by construction (exhaustive legs) / "
            "distinct canonical JSON of the case (rapid legs, 64-bit hash, unioned over shards). "
            "ELEMENT KINDS: half of the cases (random legs) and half of the indices (exhaustive legs, dealt by a hash of the case index) keep int elements; the others instantiate the functions with string, int16, an 88-byte struct, *Cell pointers, interface elements holding pointers, float64 (zeros of either sign, which are == and must be treated as equal), a word-table string kind containing 32-bit checksum-collision pairs (FNV-1, FNV-1a, Adler-32) and, optionally, strings that share storage as prefixes of one another, and []byte for the ...Func variants. Elements carry an identity besides their value, so inputs with the same values but different elements (distinct pointers to deeply equal pointees) are different inputs for ==, and every identity/aliasing check runs on the instantiated slices. LIS/LNDS natural order also runs on string, int16 and float64 stretched over the kind's whole range; with NaNs in a float64 input only this is asserted: no panic, input unchanged, the result is a bitwise subsequence sorted under cmp.Compare, with a length between the optimum of the non-NaN elements and the optimum under cmp.Compare. "
            "lcsrand draws the same round-number lengths in one case in six; lisrand has a shape 'non-decreasing run of exactly 2^k (32..256, rarely 512/1024, +-1) elements, then a strict new minimum, then a run building on it', in every comparison. Returned LIS/LNDS/LCS slices are compared with frozen copies after the later call of the case and after the next case. "
            "One lcsrand case in 12 calls LCSFunc with the symmetric but non-transitive relation |a-b| <= 1 (the documentation asks only for a function 'to compare elements'): the result must be a subsequence of one input whose elements are related, in order, to elements of the other, of the length of the largest monotone matching. leg conc: 8 goroutines at once, each calling LNDS and LIS 40-100 times on a private input of 64..5000 ints, every result under the sequential oracle. "
            "ZERO-SIZE ELEMENTS AND POISONED CALLS: one random case in 16 uses a zero-size element type (struct{}, [0]int; for the Func variants also the uncomparable [0]func()), and the exhaustive legs add every pair of lengths up to 40 (EditScript) and 30 (LCS / LCSFunc) and every length up to 300 for LISFunc / LNDSFunc with them. One case in 6 (EditScript, LCS), one in 8 (LIS/LNDS) and one in 32 of the exhaustive legs is preceded or followed by a call whose comparison PANICS and is recovered by the caller (a panicking eq/cmp after J calls, or []any holding slices on both sides so that == panics): that panic is the caller's, but the case's own calls - and the next case - must still satisfy the full oracle (state left behind in a pool, memo or package-level rows shows here).",
    "assumptions": COMMON_ASSUME + ["comparison functions are total preorders on ints (natural, reversed, v>>1); the "
                                    "equality passed to LCSFunc is an equivalence relation"],
}

PROPS["C17"] = {
    "legs": [plain("exh", "pslice", "TestC17Exhaustive", solo=True),
             rapid("rand", "pslice", "TestC17Rand", 4, 10000, 16, 1500000),
             plain("rotbig", "pslice", "TestC17RotBig")],
    "rule": "leg rotbig: Rotate of int slices of 4096, 2^16-1 .. 2^16+1, 100000, 2^17, 2^17+3 and one seed-dependent length (thorough: also 2^20, 2^20+1, 2^22) by every k with |k| <= 70, every k within 70 of +-len, powers of two +-1 (and len minus those), len/2+-2, len/3+-2, two random shifts and len+1 / -len-1 (must panic), checked in one linear pass (every element at (i+k) mod len, spare capacity and sentinel untouched); non-trivial there = a proper rotation (k mod len != 0). "
            "A case is one call {fn, n, k, spare, keep, rows}: the slice has n distinct elements 100+i, `spare` filler "
            "elements of spare capacity behind it and a sentinel after its capacity; k is the numeric argument. leg exh "
            "enumerates, by slice length: Partition for EVERY keep pattern of n <= 12 (quick) / 18 (thorough) elements "
            "with spare 0 and 2; Rotate for every n <= 24 / 96 and every k in [-n-2, n+2] (spare 0, 1); Chunks and "
            "Batches for every len <= 20 / 64 and n in [-1, max(17, len+3)] (spare 0, 2); Head/Tail n in [0, len+2]; "
            "At/PtrAt i in [-len-2, len+2]; Stripe for every tuple of <= 4 / 5 rows of lengths 0..3 / 0..4 and i in "
            "[0, max+1] (quick 22.7 k, thorough 1.1 M cases). leg rand (rapid): lengths to 300 (Partition 120) with "
            "arguments drawn at or next to the documented boundaries or anywhere in range, Rotate with gcd(k, n) > 1 by "
            "construction (n = a*b, k = +-a*c), keep patterns as random bits, runs, few flips, or already partitioned. "
            "Oracle = the direct definitions: Partition returns exactly the kept elements in order, as vs[:m:m] of the "
            "same array (for n > 0; an empty input only needs len 0), the slice stays a permutation, spare capacity and "
            "sentinel untouched; Rotate: the element from index i is at (i+k) mod n for -n <= k <= n (no panic), any "
            "other k must panic; Chunks/Batches: the pieces alias vs at consecutive offsets and concatenate to vs, every "
            "piece that is followed by another has cap == len, all chunks but the last have length n and none more than "
            "n, n == 0 gives one chunk with everything / no batches, exactly min(n, len) batches whose lengths differ by "
            "<= 1 (the ORDER of larger and smaller batches is not documented and only recorded as a class), n < 0 must "
            "panic, Batches(empty, n > 0) must return no batches without panicking; Head/Tail alias the first/last "
            "min(n, len) elements; Stripe equals the column definition and leaves the rows alone; At returns the "
            "element (negative indices from the end) and panics out of range, PtrAt returns the address of that very "
            "element or nil and never panics; non-mutating functions leave slice, spare capacity and sentinel unchanged. "
            "'No panic for an allowed argument' is asserted with recover. NON-TRIVIAL iff the argument is at or adjacent "
            "to a documented boundary (Rotate k in {-n-1..-n+1, -1..1, n-1..n+1}; Chunks/Batches n in {-1,0,1,len-1,len,"
            "len+1}; Head/Tail n in {0,1,len-1,len,len+1}; At/PtrAt i in {-len-1,-len,-1,0,len-1,len}; Stripe i >= "
            "max-1, no rows, or a ragged column), the slice is empty, gcd(k, n) > 1 for Rotate, and for Partition: "
            "empty / all kept / none kept / at least one kept element behind a dropped one (a swap is needed). Distinct "
            "= distinct by construction (exh) / distinct canonical JSON of the call (rand). "
            "ELEMENT KINDS: the same calls are made with string, int16, 1-byte, 88-byte struct, pointer, interface, float64 and []byte elements (kinds dealt by case index / drawn for half of the random cases); Partition additionally gets equal-looking but distinguishable elements (+0/-0 with a sign predicate, distinct pointers to deeply equal pointees with an identity predicate) and must still return exactly the elements the predicate accepts. Rotate/At/PtrAt arguments include math.MinInt/MaxInt. "
            "About one rand case in 4000 is a Rotate of an int slice of 2^20-1 .. 2^22+135 elements checked position by position in O(n), three in four of them directly after a Rotate of m = a*b elements by k with gcd(k, m) > 1, the long slice having 2^21+m or 2^22+m elements and rotated by k or k+-1; a quarter of the small Rotates are preceded by a Rotate of another slice by the same k. Chunks/Batches results are re-checked after the next case. "
            "Every batch of Batches, the last one and a single batch covering the whole slice included, must be capacity-clipped. "
            "ZERO-SIZE ELEMENTS: every call also runs on slices of zero-size element types (struct{}, [0]int, [0]func()), checked by lengths, capacities, piece counts and panics only, never by elements. A directed level calls Batches, Chunks, Head, Tail, At and PtrAt on slices of 2^31 up to math.MaxInt elements (which take no memory): Batches must give exactly min(n, len) clipped batches differing by at most one and summing to len, Chunks ceil(len/n) clipped chunks (including len+n beyond the int range: finding F9, repaired). About one random case in ten is zero-size, half of those with a huge length.",
    "assumptions": COMMON_ASSUME + ["element kinds as listed in the rule; Head/Tail/Stripe are only called with non-negative arguments "
                                    "(negative ones are not documented)"],
}

# Properties deliberately not claimed (reason shown in MANIFEST.not_applicable).
NOT_APPLICABLE = {}

KIT_MODES = (" KIT MODES (every rapid leg): besides its own run, every 8th case is also run on 4 goroutines at once, each on its "
             "own instances (every 16th together with the three previous cases); every 4th case alternates operation by "
             "operation with the previous case in one thread of control (coroutines: per-P state such as a sync.Pool slot is "
             "shared); results that interpreters keep (vk Retain) are re-validated after the next case. Instances of a "
             "container share nothing a caller can see, so all of these must pass; a failure is saved with its partner "
             "case(s) and the replay re-enacts the mode.")
for _p in PROPS.values():
    if any(l.get("kind") == "rapid" for l in _p["legs"]):
        _p["rule"] += KIT_MODES

# Rounds 10 and 11 of seeded changes: additions to the generators and oracles (DESIGN.md section 7).
_R10_11 = {
    "C01": "ROUNDS 10-11: one case in 8 bulk-constructs the tree from 1..8 distinct keys given 3..40 times over and starts with a removal and/or a path-extending run; Add of present keys is one of the read-only call groups (it must return false and leave cursors and iterations alone).",
    "C02": "ROUNDS 10-11: comb-shaped runs (combA/combD, long forms of 300..1700 keys for beta >= 800: new extreme two units out, then the key between, so every spine node has a single leaf as its other child); one case in 8 fills a tree with 300..1700 keys at ANY beta, clones it, makes the clone the active tree and extends its path; duplicate-heavy bulk construction as in C01.",
    "C03": "ROUNDS 10-11: one case in 4 is a 'shrunk, not yet rebuilt' scenario (beta 0..500, a run of 8..39 keys, a quarter to a half of them removed, then three cursors held across read-only calls); the read-only calls include Add of every present key (small trees) or eight spread keys.",
    "C04": "ROUNDS 10-11: the string keys/values include '%', '97%', '%d', '%%', '%[1]v %s', '%!v(MISSING)', a backslash and '{}' (String must print them verbatim).",
    "C05": "ROUNDS 10-11: op setRm = Set(vs), then Peek(i) and Remove(i) at an offset > 0 as the very first calls after it (a queue that puts off reordering must still remove what Peek showed); one Sort input in 4 is a monotone run (steps 0..2, up to 1500 values, either direction) with up to three values out of place, positions biased to the ends and values to the run's extremes.",
    "C06": "ROUNDS 10-11: op setRm as in C05 (Set, Peek(i), Remove(i) back to back) with position reports on.",
    "C07": "ROUNDS 10-11: half of the 'edge' cases are a full buffer of 1024 / 2048 / 4096 / 8192 / 16384 (+-1) slots with the head at an absolute offset of 1..64 from the start or 1..32 from the end, followed by Add or Push.",
    "C14": "ROUNDS 10-11: the hostile line alphabet also has lines that, behind their one-byte marker, are a separator or header of some format: '- ' (patch line '-- '), '+ ', '-- ', '++ ', '--', '> ', '< ', '! ', '--- ', '+++ ', '@@', '-@@ -1 +1 @@', '-- a/x', ...",
    "C15": "ROUNDS 10-11: one list case in 4 first splits a Raw string twice in the same goroutine - a head followed by an open quotation or a dangling backslash in every state the scanner can end in - checks it against the reference tokenizer, and then runs the case proper (state left in pooled scanners must not reach it).",
    "C16": "ROUNDS 10-11: about one random input in 6 is built from 2..9 segments, each one atom (blank, tab, newline, backslash-newline, backslash, quote, letter, escaped letter, '#', '$') repeated 1..65 times: long runs of one kind of byte right after every kind of construct.",
    "C18": "ROUNDS 10-11: after every Add/AddAll/Remove/RemoveAll/Pop/Clear on a non-nil variable, a copy of the Set value taken before the call (another handle of the same map) must show the same members as the receiver; one case in 6 splices in Add(x), Clear, Add(7..129 items in one call) on one variable.",
}
for _pid, _txt in _R10_11.items():
    PROPS[_pid]["rule"] = PROPS[_pid]["rule"] + " " + _txt
