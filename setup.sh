#!/bin/sh
# setup_cmd: warm the Go build cache for every harness package (offline).
set -e
cd "$(dirname "$0")/harness"
export GOFLAGS=-mod=mod GOPROXY=off GOSUMDB=off GOTOOLCHAIN=local
go build ./... 
go test -vet=off -count=1 -run '^$' ./... >/dev/null
# the race-enabled build of the cache harness (C09)
if [ -d pcache ]; then CGO_ENABLED=1 go test -race -vet=off -count=1 -run '^$' ./pcache >/dev/null 2>&1 || true; fi
echo "setup ok"
