#!/usr/bin/env python3
"""Planted-defect runner (development tool, not a registered check).

  tools/mut.py mutants/<file>.json [id-substring ...]

Each mutant: {"id","file","old","new","props":["C01"],"expect":"fail"|"pass","count":1}
is applied by exact string replacement to a scratch git worktree of /repo under
/tmp, the repository's own tests for that package are run (reported, not
required), then ./check <prop> quick is run with VERIF_REPO pointing at the
worktree.  The worktree is removed afterwards.  Results: mutants/results/<file>.tsv
"""
import json, os, subprocess, sys, shutil, time
ROOT = os.path.dirname(os.path.dirname(os.path.abspath(__file__)))
ENV = dict(os.environ, GOFLAGS="-mod=mod", GOPROXY="off", GOSUMDB="off", GOTOOLCHAIN="local")

def sh(cmd, **kw):
    return subprocess.run(cmd, stdout=subprocess.PIPE, stderr=subprocess.STDOUT, text=True, **kw)

def main():
    spec = sys.argv[1]
    filt = sys.argv[2:]
    muts = json.load(open(spec))
    tier = os.environ.get("MUT_TIER", "quick")
    rows = []
    for m in muts:
        if filt and not any(f in m["id"] for f in filt):
            continue
        wt = "/tmp/wt_mut_%d_%s" % (os.getpid(), m["id"].replace("/", "_"))
        sh(["git", "-C", "/repo", "worktree", "add", "-q", "--detach", wt, "HEAD"])
        try:
            if m.get("revert_commit"):
                r = sh(["git", "-C", wt, "revert", "--no-commit"] + m["revert_commit"].split())
                if r.returncode != 0:
                    rows.append((m["id"], "-", "-", "BAD-PATTERN(revert failed: %s)" % r.stdout[-200:])); print(rows[-1]); continue
            else:
                path = os.path.join(wt, m["file"])
                src = open(path).read()
                cnt = src.count(m["old"])
                if cnt != m.get("count", 1):
                    rows.append((m["id"], "-", "-", "BAD-PATTERN(%d matches)" % cnt)); print(rows[-1]); continue
                open(path, "w").write(src.replace(m["old"], m["new"]))
            pkg = "./" + os.path.dirname(m["file"]) + "/..."
            if m.get("skip_suite"):
                t = subprocess.CompletedProcess([], 0, "skipped", "")
            else:
                t = sh(["go", "test", "-vet=off", "-count=1", "-timeout", "300s", pkg], cwd=wt, env=ENV)
            if "[build failed]" in t.stdout or "cannot" in t.stdout and "FAIL" in t.stdout and "--- FAIL" not in t.stdout:
                suite = "nobuild"
            else:
                suite = ("suite-skipped" if m.get("skip_suite") else "suite-pass") if t.returncode == 0 else "suite-FAIL"
            for prop in m["props"]:
                t0 = time.time()
                r = sh([os.path.join(ROOT, "check"), prop, tier], cwd=ROOT, env=dict(ENV, VERIF_REPO=wt), timeout=3600)
                det = {0: "green", 1: "VIOLATION", 2: "infra"}.get(r.returncode, str(r.returncode))
                exp = m.get("expect", "fail")
                ok = (det == "VIOLATION") if exp == "fail" else (det == "green")
                first = ""
                for line in r.stdout.splitlines():
                    if line.startswith("  ") and not first:
                        first = line.strip()[:160]
                rows.append((m["id"], prop, suite, det, "expected" if ok else "UNEXPECTED", "%.0fs" % (time.time() - t0), first))
                print("\t".join(rows[-1]), flush=True)
        finally:
            sh(["git", "-C", "/repo", "worktree", "remove", "--force", wt])
            shutil.rmtree(wt, ignore_errors=True)
    os.makedirs(os.path.join(ROOT, "mutants", "results"), exist_ok=True)
    out = os.path.join(ROOT, "mutants", "results", os.path.basename(spec).replace(".json", ".tsv"))
    if not filt:
        with open(out, "w") as f:
            for r in rows:
                f.write("\t".join(r) + "\n")
    bad = [r for r in rows if "UNEXPECTED" in r or "BAD-PATTERN" in str(r)]
    print("%d rows, %d unexpected" % (len(rows), len(bad)))
    return 1 if bad else 0

if __name__ == "__main__":
    sys.exit(main())
