#!/usr/bin/env python3
"""Merges per-change result files (written by parallel `SEED_RESULTS_FILE=<f> tools/seeded.py run <name>` runs)
into seeded/RESULTS.tsv: the rows of every change named in the given files replace its earlier rows.
usage: tools/merge_results.py <file.tsv>..."""
import os, sys
ROOT = os.path.dirname(os.path.dirname(os.path.abspath(__file__)))
res = os.path.join(ROOT, "seeded", "RESULTS.tsv")
rows = {}
lines = open(res).read().splitlines()
head = lines[0]
for l in lines[1:]:
    f = l.split("\t")
    rows.setdefault(f[0], []).append(l)
for p in sys.argv[1:]:
    new = {}
    for l in open(p).read().splitlines()[1:]:
        new.setdefault(l.split("\t")[0], []).append(l)
    rows.update(new)
kept = {d for d in os.listdir(os.path.join(ROOT, "seeded")) if os.path.isfile(os.path.join(ROOT, "seeded", d, "meta.json"))}
with open(res, "w") as f:
    f.write(head + "\n")
    for name in sorted(rows):
        if name in kept:
            f.write("\n".join(rows[name]) + "\n")
print(len([n for n in rows if n in kept]), "changes in RESULTS.tsv")
