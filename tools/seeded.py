#!/usr/bin/env python3
"""Confirms and evaluates seeded breakages delivered by independent sub-agents.

  tools/seeded.py import <dir> <property> <name>   verify a delivery (patch.diff, demo_test.go, notes.md),
                                                   and keep it as /verif/seeded/<name>/ if confirmed
  tools/seeded.py run [name-substring ...]         run the registered checks against every kept breakage
                                                   (scratch worktree + VERIF_REPO; /repo is never touched)

Confirmation = in a fresh scratch worktree of /repo HEAD: the patch applies, the
repository's whole suite passes with it, the demo test fails with it and passes
without it.  Results of `run` go to /verif/seeded/RESULTS.tsv.
"""
import json, os, re, shutil, subprocess, sys, time
ROOT = os.path.dirname(os.path.dirname(os.path.abspath(__file__)))
SEEDED = os.path.join(ROOT, "seeded")
ENV = dict(os.environ, GOFLAGS="-mod=mod", GOPROXY="off", GOSUMDB="off", GOTOOLCHAIN="local")


def sh(cmd, **kw):
    return subprocess.run(cmd, stdout=subprocess.PIPE, stderr=subprocess.STDOUT, text=True, **kw)


def worktree(tag):
    wt = "/tmp/wt_seeded_%d_%s" % (os.getpid(), tag)
    sh(["git", "-C", "/repo", "worktree", "add", "-q", "--detach", wt, "HEAD"])
    return wt


def drop(wt):
    sh(["git", "-C", "/repo", "worktree", "remove", "--force", wt])
    shutil.rmtree(wt, ignore_errors=True)


def demo_pkg(patch_text, demo_text):
    """Directory of the package the demo belongs to: from its package clause and the patch."""
    m = re.search(r"^package\s+(\w+)", demo_text, re.M)
    pkg = m.group(1) if m else ""
    base = pkg[:-5] if pkg.endswith("_test") else pkg
    files = re.findall(r"^\+\+\+ b/(\S+)", patch_text, re.M)
    for f in files:
        if os.path.dirname(f).split("/")[-1] == base:
            return os.path.dirname(f)
    if os.path.isdir(os.path.join("/repo", base)):
        return base
    return os.path.dirname(files[0]) if files else base


def gotest(wt, pkgdir, run=None, race=False, timeout=900):
    cmd = ["go", "test", "-vet=off", "-count=1", "-timeout", "%ds" % timeout]
    env = dict(ENV)
    if race:
        cmd.append("-race")
        env["CGO_ENABLED"] = "1"
    if run:
        cmd += ["-run", run]
    cmd.append("./" + pkgdir + ("/..." if run is None else ""))
    return sh(cmd, cwd=wt, env=env, timeout=timeout + 60)


def do_import(src, prop, name):
    patch = os.path.join(src, "patch.diff")
    demo = os.path.join(src, "demo_test.go")
    if not (os.path.isfile(patch) and os.path.isfile(demo)):
        print("MISSING files in", src)
        return 1
    ptxt, dtxt = open(patch).read(), open(demo).read()
    pkgdir = demo_pkg(ptxt, dtxt)
    tests = re.findall(r"^func (Test\w+)\(", dtxt, re.M)
    runpat = "^(" + "|".join(tests) + ")$" if tests else "."
    race = "-race" in (open(os.path.join(src, "notes.md")).read() if os.path.exists(os.path.join(src, "notes.md")) else "") and prop == "C09"
    wt = worktree(name)
    log = {}
    try:
        # demo on clean HEAD
        shutil.copy(demo, os.path.join(wt, pkgdir, "zz_demo_test.go"))
        r = gotest(wt, pkgdir, run=runpat, race=race)
        log["demo_without_change"] = "pass" if r.returncode == 0 else "FAIL"
        demo_clean_out = r.stdout[-1500:]
        os.remove(os.path.join(wt, pkgdir, "zz_demo_test.go"))
        # apply
        r = sh(["git", "-C", wt, "apply", patch])
        if r.returncode != 0:
            print("PATCH DOES NOT APPLY:", r.stdout)
            return 1
        r = sh(["go", "build", "./..."], cwd=wt, env=ENV)
        log["builds"] = r.returncode == 0
        r = sh(["go", "test", "-vet=off", "-count=1", "-timeout", "900s", "./..."], cwd=wt, env=ENV, timeout=1000)
        log["suite_with_change"] = "pass" if r.returncode == 0 else "FAIL"
        suite_out = r.stdout[-1500:]
        shutil.copy(demo, os.path.join(wt, pkgdir, "zz_demo_test.go"))
        fails = 0
        runs = 5 if prop == "C09" else 1
        for _ in range(runs):
            r = gotest(wt, pkgdir, run=runpat, race=race)
            if r.returncode != 0:
                fails += 1
        log["demo_with_change"] = "FAIL %d/%d" % (fails, runs) if fails else "pass"
        demo_out = r.stdout[-1500:]
    finally:
        drop(wt)
    ok = log.get("builds") and log["suite_with_change"] == "pass" and log["demo_without_change"] == "pass" and log["demo_with_change"].startswith("FAIL")
    print(name, json.dumps(log), "CONFIRMED" if ok else "REJECTED")
    if not ok:
        print("--- demo on clean:\n", demo_clean_out, "\n--- suite:\n", suite_out, "\n--- demo with change:\n", demo_out)
        return 1
    dst = os.path.join(SEEDED, name)
    os.makedirs(dst, exist_ok=True)
    shutil.copy(patch, os.path.join(dst, "patch.diff"))
    shutil.copy(demo, os.path.join(dst, "demo_test.go"))
    notes = ""
    if os.path.exists(os.path.join(src, "notes.md")):
        shutil.copy(os.path.join(src, "notes.md"), os.path.join(dst, "notes.md"))
        notes = open(os.path.join(src, "notes.md")).read()
    meta = {
        "id": name, "breaks_property": prop, "origin": "independent sub-agent given only the property text and a scratch worktree",
        "package_dir": pkgdir, "demo_tests": tests,
        "needs_to_manifest": (re.search(r"(?is)(needs?[^\n]*manifest.*?)(\n#|\Z)", notes) or [None, ""])[1].strip()[:1200],
        "confirmed_by": {
            "commands": [
                "git -C /repo worktree add --detach <wt> HEAD",
                "cp demo_test.go <wt>/%s/zz_demo_test.go && go test -run '%s' ./%s   # on clean HEAD" % (pkgdir, runpat, pkgdir),
                "git -C <wt> apply patch.diff && go test -vet=off -count=1 ./...",
                "go test -run '%s' ./%s   # with the change" % (runpat, pkgdir),
            ],
            "outcome": log,
        },
    }
    json.dump(meta, open(os.path.join(dst, "meta.json"), "w"), indent=1)
    return 0


def do_run(filters):
    tier_env = os.environ.get("SEED_TIER", "quick")
    rows = []
    names = sorted(d for d in os.listdir(SEEDED) if os.path.isfile(os.path.join(SEEDED, d, "meta.json")))
    for name in names:
        if filters and not any(f in name for f in filters):
            continue
        meta = json.load(open(os.path.join(SEEDED, name, "meta.json")))
        prop = meta["breaks_property"]
        wt = worktree(name)
        try:
            r = sh(["git", "-C", wt, "apply", os.path.join(SEEDED, name, "patch.diff")])
            if r.returncode != 0:
                rows.append((name, prop, tier_env, "patch-does-not-apply", "", ""))
                continue
            tiers = [tier_env] if tier_env != "both" else ["quick", "thorough"]
            if meta.get("tier") == "thorough" and tier_env == "quick":
                tiers = ["thorough"]  # changes that need billions of operations: only the thorough tier reaches them
            for tier in tiers:
                t0 = time.time()
                r = sh([os.path.join(ROOT, "check"), prop, tier], cwd=ROOT, env=dict(ENV, VERIF_REPO=wt), timeout=7200)
                det = {0: "MISSED", 1: "caught", 2: "infra"}.get(r.returncode, str(r.returncode))
                first = next((l.strip()[:200] for l in r.stdout.splitlines() if l.startswith("  ")), "")
                rp = ""
                if det == "caught" and os.environ.get("SEED_REPLAY", "1") != "0":
                    # the shrunk case must reproduce from its replay file on the changed
                    # tree and pass on /repo (the property holds there for that very case)
                    # a report may name several replay files (one per leg and shard); the
                    # modes that depend on the scheduler or on sync.Pool retention do not
                    # reproduce every time, so: every file must pass on /repo, and at least
                    # one must fail again on the changed tree
                    paths = [p for p in re.findall(r"^VIOLATION property=\S+ replay=(\S+)", r.stdout, re.M) if p.endswith(".json") and "-race-" not in p][:5]
                    if paths:
                        again, clean, tried = False, True, 0
                        for rpath in paths:
                            tried += 1
                            a = sh([os.path.join(ROOT, "check"), prop, "--replay", rpath], cwd=ROOT, env=dict(ENV, VERIF_REPO=wt), timeout=4000)
                            b = sh([os.path.join(ROOT, "check"), prop, "--replay", rpath], cwd=ROOT, env=ENV, timeout=4000)
                            clean = clean and b.returncode == 0
                            if a.returncode == 1:
                                again = True
                            if again or not clean:
                                break
                        rp = "replay: %s on the changed tree (%d file(s) tried), %s on /repo" % ("fails again" if again else "does NOT fail again", tried, "passes" if clean else "FAILS")
                        if not again or not clean:
                            det = "caught-but-replay-wrong"
                    elif "VIOLATION" in r.stdout:
                        rp = "replay: race log / schedule-dependent, not replayed"
                rows.append((name, prop, tier, det, "%.0fs" % (time.time() - t0), (rp + " | " if rp else "") + first))
                print("\t".join(rows[-1]), flush=True)
                if det == "caught":
                    break
        finally:
            drop(wt)
    # RESULTS.tsv: a full run rewrites it; a filtered run replaces the rows of the
    # changes it ran and drops rows of changes that are no longer kept
    res = os.environ.get("SEED_RESULTS_FILE") or os.path.join(SEEDED, "RESULTS.tsv")
    merged = {}
    if filters and os.path.exists(res):
        for line in open(res).read().splitlines()[1:]:
            f = line.split("\t")
            if len(f) >= 6 and f[0] in names:
                merged.setdefault(f[0], []).append(tuple(f[:6]))
    ran = {}
    for r in rows:
        ran.setdefault(r[0], []).append(r)
    merged.update(ran)
    with open(res, "w") as f:
        f.write("seeded change\tproperty\ttier\tresult\twall\tfirst line of the report\n")
        for name in sorted(merged):
            for r in merged[name]:
                f.write("\t".join(r) + "\n")
    missed = [r for r in rows if r[3] != "caught"]
    print("%d runs, %d not caught" % (len(rows), len(missed)))
    return 0


if __name__ == "__main__":
    if len(sys.argv) >= 5 and sys.argv[1] == "import":
        sys.exit(do_import(sys.argv[2], sys.argv[3], sys.argv[4]))
    if len(sys.argv) >= 2 and sys.argv[1] == "run":
        sys.exit(do_run(sys.argv[2:]))
    print(__doc__)
    sys.exit(2)
