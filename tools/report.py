#!/usr/bin/env python3
"""Regenerates the validation tables of DESIGN.md (between the VALIDATION markers)
from mutants/results/*.tsv, mutants/*.json and seeded/*/meta.json + seeded/RESULTS.tsv."""
import json, os, glob, re
ROOT = os.path.dirname(os.path.dirname(os.path.abspath(__file__)))

def planted():
    out = ["| set | planted defects | caught (VIOLATION) | stayed green, as expected (benign / equivalent) | unexpected |", "|---|---|---|---|---|"]
    notes = []
    for f in sorted(glob.glob(os.path.join(ROOT, "mutants", "results", "*.tsv"))):
        name = os.path.basename(f)[:-4]
        rows = [l.rstrip("\n").split("\t") for l in open(f) if l.strip()]
        caught = sum(1 for r in rows if len(r) > 4 and r[3] == "VIOLATION" and r[4] == "expected")
        green = sum(1 for r in rows if len(r) > 4 and r[3] == "green" and r[4] == "expected")
        unexp = sum(1 for r in rows if "UNEXPECTED" in r or any("BAD-PATTERN" in x for x in r))
        out.append("| `mutants/%s.json` | %d | %d | %d | %d |" % (name, len(rows), caught, green, unexp))
        spec = os.path.join(ROOT, "mutants", name + ".json")
        if os.path.exists(spec) and name != "shell_table":
            for m in json.load(open(spec)):
                if m.get("expect") == "pass" and m.get("note"):
                    notes.append("* `%s` (%s) stays green: %s" % (m["id"], ",".join(m["props"]), m["note"]))
    return "\n".join(out) + "\n\nPlanted defects that are expected to stay green (negative controls):\n\n" + "\n".join(notes)

def seeded():
    res = {}
    p = os.path.join(ROOT, "seeded", "RESULTS.tsv")
    if os.path.exists(p):
        for l in list(open(p))[1:]:
            r = l.rstrip("\n").split("\t")
            res[r[0]] = r
    out = ["| seeded change | property | what it needs to manifest (from the author's notes) | caught by | first line of the report |", "|---|---|---|---|---|"]
    for d in sorted(glob.glob(os.path.join(ROOT, "seeded", "C*"))):
        name = os.path.basename(d)
        meta = json.load(open(os.path.join(d, "meta.json")))
        r = res.get(name, [name, meta["breaks_property"], "?", "not run", "", ""])
        needs = meta.get("needs_short") or ""
        out.append("| `%s` | %s | %s | %s | %s |" % (name, meta["breaks_property"], needs.replace("|", "/"),
                   ("`./check %s %s` (%s)" % (r[1], r[2], r[4])) if r[3] == "caught" else "**%s**" % r[3], r[5][:150].replace("|", "/")))
    return "\n".join(out)

if __name__ == "__main__":
    p = os.path.join(ROOT, "DESIGN.md")
    s = open(p).read()
    a, b = s.index("<!-- BEGIN VALIDATION -->"), s.index("<!-- END VALIDATION -->")
    body = "<!-- BEGIN VALIDATION -->\n\n### 7.1 Planted defects (written by me from each property's S list)\n\n" + planted() + \
           "\n\n### 7.2 Independently seeded breakages\n\n" + seeded() + "\n\n"
    open(p, "w").write(s[:a] + body + s[b:])
    print("DESIGN.md validation tables regenerated")
