#!/bin/sh
# Runs every quick check on the unchanged tree at several seeds; prints anything that is not a clean OK.
# usage: tools/silent.sh [seeds...]   (default: 1 2 3)
cd "$(dirname "$0")/.."
seeds="${*:-1 2 3}"
bad=0
for s in $seeds; do
  for p in $(./check --list); do
    out=$(VERIF_SEED=$s ./check $p quick 2>&1); rc=$?
    if [ $rc -ne 0 ] || echo "$out" | grep -q "VIOLATION"; then
      bad=$((bad+1)); echo "== seed $s $p rc=$rc"; echo "$out" | grep -v "^KNOWN-FINDING" | head -5 | cut -c1-300
    fi
  done
done
echo "silent.sh: $bad problem(s) over seeds: $seeds"
