#!/usr/bin/env python3
"""Regenerates /verif/MANIFEST.json from checks_config.py (claimed properties)
and properties.jsonl (everything not claimed is listed under not_applicable)."""
import json, os, sys
ROOT = os.path.dirname(os.path.dirname(os.path.abspath(__file__)))
sys.path.insert(0, ROOT)
from checks_config import PROPS, NOT_APPLICABLE  # noqa

ids = [json.loads(l)["id"] for l in open(os.path.join(ROOT, "properties.jsonl")) if l.strip()]
LEVEL = {
 "C01": ("model-based PBT (rapid): operation histories interpreted against a reference sorted set, oracle after every step", "Exploration. A sorted-set model is compared with the tree after every single operation of generated histories (runs that force scapegoat and whole-tree rebuilds, clones, bulk construction, comparators returning magnitudes). The property quantifies over all histories; this explores tens of thousands (quick) to millions (thorough) of them and proves nothing beyond them."),
 "C02": ("model-based PBT with an adaptive adversary; exact big-integer bound checked after every single operation; exhaustive New(n) heights", "Exploration. The height is measured through the public cursor API after every single insertion/removal of generated and adversarial histories and compared with the stated bound in exact arithmetic; New(n) is enumerated for every n up to a bound."),
 "C03": ("model-based PBT: tree shape reconstructed through the cursor API, every navigation result compared with the sorted set", "Exploration over generated trees (skewed shapes included) and generated move sequences on two cursors; complete for each generated tree with respect to Cursor(key) and Next/Prev chains."),
 "C04": ("model-based PBT against a reference sorted map; several live iterators; float keys incl. NaN", "Exploration over generated histories with three comparators, two copies of the map value, three live iterators, the zero map and a float-key leg."),
 "C05": ("model-based PBT against a multiset model + executable deviation models for the two known findings; exhaustive Sort", "Exploration. Conservation clauses are strict; the minimality clause is strict wherever the known findings F1/F2 cannot have been exercised and is triaged by deviation models elsewhere (DESIGN 2.1)."),
 "C06": ("model-based PBT: reported positions tracked per element identity and compared with Peek after every step", "Exploration over generated histories with an update callback; independent of heap order."),
 "C07": ("model-based PBT against a reference slice + exhaustive op sequences for small preallocations", "Exploration: every op sequence over Add/Push/Pop/PopLast up to length 9/11 for NewSize(0..4) exhaustively, plus generated histories with long runs and larger preallocations."),
 "C08": ("model-based PBT against a reference LRU (recency list) + deviation model for known finding F2", "Exploration. Accounting and exactly-once clauses are strict; the eviction choice is strict below the exposure of F2 and must follow the F2 deviation model above it."),
 "C09": ("randomised concurrent workloads: Go race detector, porcupine linearizability check against the C08 model, quiescence accounting, deadlock detection", "Exploration of sampled schedules only: interleavings are not enumerated and a run is not reproducible; a recorded history is decided deterministically."),
 "C10": ("model-based PBT: reference sequences, predecessor-identity cursor model, cycle model for rings", "Exploration over generated histories for each of the four structures; hangs are caught by a CPU-time watchdog."),
 "C11": ("small-scope exhaustive enumeration + PBT: script executed against the inputs, minimality against an independent LCS table", "Exploration, exhaustive up to the stated length bounds (incl. aliased windows of one buffer), random beyond."),
 "C12": ("small-scope exhaustive enumeration + PBT against independent O(n^2)/O(mn) reference optima", "Exploration, exhaustive up to the stated bounds, random beyond (incl. multi-scale and block-edit shapes)."),
 "C13": ("small-scope exhaustive enumeration + PBT with an executable patch-application oracle", "Exploration, exhaustive for all pairs over 3 lines up to length 5/6 with 7 context sizes, random beyond."),
 "C14": ("exhaustive + PBT: round trip, reference appliers written from the published format rules, GNU patch differential, native fuzzing (thorough)", "Exploration. External oracle GNU patch 2.7.6 (self-tested at run time); known finding F5 triaged by exact expectation."),
 "C15": ("exhaustive + PBT: round trip, independent POSIX quote-removal scan, differential against dash and bash, native fuzzing (thorough)", "Exploration. External oracles dash/bash (self-tested at run time)."),
 "C16": ("exhaustive + PBT: differential against an independent reference tokenizer and real shells; reader fragmentation; native fuzzing (thorough)", "Exploration, exhaustive over the six tokenizer classes up to length 6/7; all 378 single-cell mutants of the state table are killed by the quick tier."),
 "C17": ("small-scope exhaustive enumeration + PBT against direct definitions", "Exploration, exhaustive for small lengths and all arguments around the valid range, random (incl. extreme ints) beyond."),
 "C18": ("exhaustive operand combinations over a small universe + model-based PBT with behavioural aliasing probes", "Exploration."),
 "C19": ("model-based PBT for the deterministic clauses + statistical test of the mean over thousands of independent counters", "Exploration; the unbiasedness clause is a statistical test with a stated band (8 standard errors; wider below for buffer sizes < 8), not reproducible bit for bit."),
 "C20": ("exhaustive enumeration (all alignments and zero patterns; all strings over small alphabets; all pairs and triples) + PBT", "Exploration, exhaustive up to the stated bounds."),
}
checks = []
for pid in ids:
    if pid not in PROPS:
        continue
    c = PROPS[pid]
    checks.append({
        "property_id": pid,
        "quick_cmd": "./check %s quick" % pid,
        "thorough_cmd": "./check %s thorough" % pid,
        "evidence_file": "/verif/evidence/%s.json" % pid,
        "replay_cmd_template": "./check %s --replay {path}" % pid,
        "engine": "go-rapid-harness",
        "level_claimed": {
            "category": "exploration",
            "text": c.get("level_text", LEVEL.get(pid, ("", "Generated-input search against an explicit oracle; the property held on every generated case, nothing is proved."))[1]),
            "design_ref": "DESIGN.md section 5/" + pid,
        },
        "level_note": c.get("level_note", "Trusted: Go toolchain, rapid v1.3.0, and the reference model/oracle written in /verif/harness (validated by planted defects)."),
        "technique": LEVEL.get(pid, (c.get("technique", "property-based testing (rapid) against a reference model"),))[0],
    })
na = [{"property_id": pid, "reason": NOT_APPLICABLE.get(pid, "no check built yet for this property (work in progress); it is not claimed")} for pid in ids if pid not in PROPS]
m = {
    "version": 1,
    "setup_cmd": "./setup.sh",
    "hooks": {
        "guard": "verif",
        "enable": "no hooks are used: the harness drives the public API only; checks build the harness module against /repo's working tree (replace github.com/creachadair/mds => /repo) with plain `go test -c`",
        "baseline_off_cmd": "cd /repo && GOFLAGS=-mod=mod GOPROXY=off GOSUMDB=off GOTOOLCHAIN=local go test -vet=off -count=1 ./...",
        "source_commits": [],
        "add_only": True,
    },
    "engines": [{
        "name": "go-rapid-harness", "path": "/verif/harness",
        "serves_properties": [c["property_id"] for c in checks],
        "kind_free_text": "Go test binaries (pgregory.net/rapid v1.3.0 stateful/model-based generation, bounded exhaustive enumerators, native go fuzz targets in the thorough tier, porcupine linearizability checker for C09) driven by the python3 driver /verif/check which shards, merges statistics and writes evidence",
    }],
    "checks": checks,
    "notes": "Property-based testing and fuzzing only. Known findings: /verif/KNOWN_FINDINGS.txt. Seeded breakages used to validate the checks: /verif/seeded/. See DESIGN.md.",
    "not_applicable": na,
}
json.dump(m, open(os.path.join(ROOT, "MANIFEST.json"), "w"), indent=1)
print("wrote MANIFEST.json: %d claimed, %d not claimed" % (len(checks), len(na)))
