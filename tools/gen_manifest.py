#!/usr/bin/env python3
"""Regenerates /verif/MANIFEST.json from checks_config.py (claimed properties)
and properties.jsonl (everything not claimed is listed under not_applicable)."""
import json, os, sys
ROOT = os.path.dirname(os.path.dirname(os.path.abspath(__file__)))
sys.path.insert(0, ROOT)
from checks_config import PROPS, NOT_APPLICABLE  # noqa

ids = [json.loads(l)["id"] for l in open(os.path.join(ROOT, "properties.jsonl")) if l.strip()]
checks = []
for pid in ids:
    if pid not in PROPS:
        continue
    c = PROPS[pid]
    checks.append({
        "property_id": pid,
        "quick_cmd": "./check %s quick" % pid,
        "thorough_cmd": "./check %s thorough" % pid,
        "evidence_file": "/verif/evidence/%s.json" % pid,
        "replay_cmd_template": "./check %s --replay {path}" % pid,
        "engine": "go-rapid-harness",
        "level_claimed": {
            "category": "exploration",
            "text": c.get("level_text", "Generated-input search against an explicit oracle; the property held on every generated case, nothing is proved."),
            "design_ref": "DESIGN.md section 5/" + pid,
        },
        "level_note": c.get("level_note", "Trusted: Go toolchain, rapid v1.3.0, and the reference model/oracle written in /verif/harness (validated by planted defects)."),
        "technique": c.get("technique", "property-based testing (rapid) against a reference model"),
    })
na = [{"property_id": pid, "reason": NOT_APPLICABLE.get(pid, "no check built yet for this property (work in progress); it is not claimed")} for pid in ids if pid not in PROPS]
m = {
    "version": 1,
    "setup_cmd": "./setup.sh",
    "hooks": {
        "guard": "verif",
        "enable": "no hooks are used: the harness drives the public API only; checks build the harness module against /repo's working tree (replace github.com/creachadair/mds => /repo) with plain `go test -c`",
        "baseline_off_cmd": "cd /repo && GOFLAGS=-mod=mod GOPROXY=off GOSUMDB=off GOTOOLCHAIN=local go test -vet=off -count=1 ./...",
        "source_commits": [],
        "add_only": True,
    },
    "engines": [{
        "name": "go-rapid-harness", "path": "/verif/harness",
        "serves_properties": [c["property_id"] for c in checks],
        "kind_free_text": "Go test binaries (pgregory.net/rapid v1.3.0 stateful/model-based generation, bounded exhaustive enumerators, native go fuzz targets in the thorough tier, porcupine linearizability checker for C09) driven by the python3 driver /verif/check which shards, merges statistics and writes evidence",
    }],
    "checks": checks,
    "notes": "Property-based testing and fuzzing only. Known findings: /verif/KNOWN_FINDINGS.txt. Seeded breakages used to validate the checks: /verif/seeded/. See DESIGN.md.",
    "not_applicable": na,
}
json.dump(m, open(os.path.join(ROOT, "MANIFEST.json"), "w"), indent=1)
print("wrote MANIFEST.json: %d claimed, %d not claimed" % (len(checks), len(na)))
